//! C12 — no query text can crash or hang the embedding process.
//!
//! Runtime monitor with process isolation. The parent (this file, `run`) generates a
//! deterministic corpus per query language (`c12_gen*.rs`: fixed directed corpus, nesting ladders,
//! seeded random part), writes batches to a scratch directory and runs each batch in a child
//! process of the same binary (hidden sub-mode: environment variable `VH_C12_CHILD=<batch file>`),
//! 16 children in parallel. The child limits its address space to 4 GiB, builds the fixture
//! databases, and runs every input through the real `Session::execute*` entry point inside
//! `util::catch` on an 8 MiB thread, with a watchdog that aborts the process when one call
//! exceeds the bound. The parent maps (result lines, exit status, stderr) to an outcome class:
//!   ok / err (allowed) — panic / stack overflow / abort / signal / rlimit / timeout (deviation).
//! A dead batch is continued after the culprit; the culprit is re-run alone (a timeout with a
//! 60 s bound) and only what reproduces alone is reported; an unreproduced death is inconclusive.
//!
//! Details that matter:
//! * bound = 10 s per call: the watchdog fires when 10 s of wall-clock (stretched by the
//!   oversubscription factor loadavg/cores when the machine is overloaded) have passed AND the
//!   process has burnt 10 s of CPU inside the call or all its threads are asleep (blocked call).
//!   On an idle machine this is the plain 10 s bound; on a loaded one it does not fire early.
//! * translate pre-pass: `translate_<lang>` alone under a 100 ms bound marks *suspected* parser
//!   hangs cheaply; the first two per signature are judged with the real entry point and the real
//!   bounds, the rest only counted (the open SPARQL parser loop C12-F17 is hit by ~7 % of mutated
//!   inputs; without this the check would need hours).
//! * panic site: `<file under /repo>::<enclosing fn>` of the panic location (all engine panics seen
//!   are arithmetic / slicing / unwrap, whose location is the in-repo line); the child installs its
//!   own hook for that because symbolising a backtrace costs seconds per panic in the dev binary.
//! * every directed input runs on its own fresh fixture (order independent, reproducible alone);
//!   the random part shares fixtures within a batch (state accumulates, rebuilt when grown).
//! * a self-test of outcome detection (pseudo inputs: panic, infinite recursion, sleep, spin,
//!   allocation until RLIMIT, abort, SIGSEGV) runs on every invocation.
//!
//! Signature: `c12:<language>:<outcome>@<panic site>:<message class>` for panics,
//! `c12:<language>:<stackoverflow|timeout|rlimit|abort|signal>@<…>:<construct>` otherwise.

#[path = "c12_gen.rs"]
mod cgen;
#[path = "c12_seeds.rs"]
mod seeds;

use crate::report::{Report, Tier};
use crate::util;
use grafeo_common::types::Value;
use grafeo_engine::GrafeoDB;
use serde_json::json;
use std::collections::{BTreeMap, HashMap, HashSet};
use std::io::Write;
use std::path::Path;
use std::sync::atomic::{AtomicI64, AtomicU64, AtomicUsize, Ordering};
use std::sync::{Arc, Mutex};
use std::time::{Duration, Instant};

pub const LANGS: [&str; 5] = ["gql", "cypher", "gremlin", "graphql", "sparql"];
pub const L_GQL: u8 = 0;
pub const L_CYPHER: u8 = 1;
pub const L_GREMLIN: u8 = 2;
pub const L_GRAPHQL: u8 = 3;
pub const L_SPARQL: u8 = 4;
/// pseudo language: harness self-test of outcome detection (never reaches the engine)
const L_SELFTEST: u8 = 9;

const BOUND_S: u64 = 10;
const CONFIRM_BOUND_S: u64 = 60;
/// Pre-pass: the language's public `translate_*` (lex + parse + translate, the first thing every
/// execute* entry point does) normally takes microseconds. When it alone exceeds this bound the
/// child stops early and reports a *suspected* hang, which the parent then judges with the real
/// entry point and the real bounds (10 s, then 60 s alone). Only an optimisation: a parser loop
/// costs 0.1 s instead of 70 s of wall clock; it never decides a verdict.
const TRANSLATE_BOUND_MS: u64 = 100;
/// suspected translate hangs confirmed with the full protocol per signature and run; the rest
/// are counted (evidence) but not judged
const SUSPECT_CONFIRMATIONS: u32 = 2;
const RLIMIT_AS_BYTES: u64 = 4 << 30;
const STACK_BYTES: usize = 8 << 20;
const PARALLEL: usize = 16;

/// One input of the corpus.
#[derive(Clone, Debug)]
pub struct Input {
    pub lang: u8,
    /// fixture: 0 empty, 1 small mixed graph (+ RDF triples), 2 dense 6-clique (+ RDF cycle) — shared
    /// by the inputs of a batch (state accumulates; rebuilt when grown); 3, 4, 5: the same three
    /// kinds created freshly for this input alone
    pub fx: u8,
    /// parameter map: "" none, "p<k>" pool value k under every common name, "all" every pool
    /// value under p0..pN, "r<case>" a random value (vals::random) under every common name
    pub par: String,
    /// corpus family (evidence)
    pub fam: &'static str,
    /// construct class used in the signature of non-panic outcomes
    pub cons: String,
    pub text: String,
}

impl Input {
    pub fn new(lang: u8, fx: u8, fam: &'static str, text: impl Into<String>) -> Self {
        Input { lang, fx, par: String::new(), fam, cons: fam.to_string(), text: text.into() }
    }
    pub fn cons(mut self, c: &str) -> Self {
        self.cons = c.to_string();
        self
    }
    pub fn par(mut self, p: impl Into<String>) -> Self {
        self.par = p.into();
        self
    }
    fn to_json(&self) -> String {
        serde_json::to_string(&json!([self.lang, self.fx, self.par, self.fam, self.cons, self.text])).unwrap()
    }
}

fn lang_name(l: u8) -> &'static str {
    if l == L_SELFTEST { "selftest" } else { LANGS[l as usize] }
}

// =====================================================================================
// child
// =====================================================================================

pub const PARAM_NAMES: [&str; 12] = ["p", "x", "name", "age", "id", "value", "v", "list", "n", "min", "limit", "param"];

fn build_params(spec: &str, seed: u64) -> Option<HashMap<String, Value>> {
    if spec.is_empty() {
        return None;
    }
    let pool = crate::vals::pool();
    let mut m = HashMap::new();
    if spec == "all" {
        for (i, v) in pool.iter().enumerate() {
            m.insert(format!("p{i}"), v.clone());
        }
        for n in PARAM_NAMES {
            m.insert(n.to_string(), pool[i64_index(&pool)].clone());
        }
    } else if spec == "none" {
        // empty map through the *_with_params entry point
    } else if let Some(k) = spec.strip_prefix('p') {
        let k: usize = k.parse().unwrap_or(0) % pool.len();
        for n in PARAM_NAMES {
            m.insert(n.to_string(), pool[k].clone());
        }
    } else if let Some(c) = spec.strip_prefix('r') {
        let c: u64 = c.parse().unwrap_or(0);
        let mut r = crate::rng::Rng::new(seed, "c12-param", c);
        for n in PARAM_NAMES {
            m.insert(n.to_string(), crate::vals::random(&mut r, 3));
        }
    }
    Some(m)
}
fn i64_index(pool: &[Value]) -> usize {
    pool.iter().position(|v| matches!(v, Value::Int64(42))).unwrap_or(0)
}

/// Deterministic fixtures (direct API, independent of the parsers under test).
fn build_fixture(kind: u8) -> GrafeoDB {
    use grafeo_core::graph::rdf::{Term, Triple};
    let db = GrafeoDB::new_in_memory();
    let ex = |s: &str| Term::iri(format!("http://example.org/{s}"));
    let foaf = |s: &str| Term::iri(format!("http://xmlns.com/foaf/0.1/{s}"));
    match kind {
        1 => {
            use crate::vals::{list, map, s, vector};
            let names = ["Alice", "Bob", "Carol", "Dave", "Zoë", "", "日本", "Eve", "a'b\"c", "Mallory"];
            let ages: [Option<i64>; 10] =
                [Some(30), Some(25), Some(0), Some(i64::MAX), Some(i64::MIN), None, Some(-1), Some(42), Some(1 << 53), Some(7)];
            let scores = [1.5, 0.0, -0.0, f64::NAN, f64::INFINITY, 1e308, -2.5, 5e-324, f64::NEG_INFINITY, 3.0];
            let mut people = Vec::new();
            for i in 0..10 {
                let mut props: Vec<(String, Value)> = vec![
                    ("name".into(), s(names[i])),
                    ("score".into(), Value::Float64(scores[i])),
                    ("active".into(), Value::Bool(i % 2 == 0)),
                    ("id".into(), Value::Int64(i as i64)),
                ];
                if let Some(a) = ages[i] {
                    props.push(("age".into(), Value::Int64(a)));
                }
                match i % 5 {
                    0 => props.push(("tags".into(), list(vec![s("a"), s("b"), Value::Int64(1)]))),
                    1 => props.push(("tags".into(), list(vec![]))),
                    2 => props.push(("meta".into(), map(vec![("k", Value::Int64(1)), ("n", Value::Null)]))),
                    3 => props.push(("vec".into(), vector(&[1.0, 0.0, -1.0]))),
                    _ => props.push(("city".into(), Value::Null)),
                }
                if i == 7 {
                    props.push(("data".into(), Value::Bytes(Arc::from(&[0u8, 255, 1][..]))));
                    props.push(("ts".into(), Value::Timestamp(grafeo_common::types::Timestamp::from_micros(1_700_000_000_000_000))));
                }
                let labels: &[&str] = if i % 3 == 0 { &["Person", "Employee"] } else { &["Person"] };
                people.push(db.create_node_with_props(labels, props));
            }
            let mut cities = Vec::new();
            for (i, c) in ["NYC", "LA", "Zürich", "東京"].iter().enumerate() {
                cities.push(db.create_node_with_props(
                    &["City"],
                    vec![("name".to_string(), s(c)), ("population".to_string(), Value::Int64(if i == 0 { i64::MAX } else { 1000 * i as i64 }))],
                ));
            }
            let mut comps = Vec::new();
            for c in ["Acme", "Globex", "Initech"] {
                comps.push(db.create_node_with_props(&["Company"], vec![("name".to_string(), s(c)), ("founded".to_string(), Value::Int64(1999))]));
            }
            let mut things = Vec::new();
            for i in 0..3 {
                things.push(db.create_node_with_props(&["Thing", "User"], vec![("name".to_string(), s("t")), ("val".to_string(), Value::Int64(i))]));
            }
            let _ = db.create_node(&[]);
            // 30 edges: KNOWS ring + chords (with props), LIVES_IN, WORKS_AT, a self loop, parallel edges
            for i in 0..10 {
                db.create_edge_with_props(
                    people[i],
                    people[(i + 1) % 10],
                    "KNOWS",
                    vec![
                        ("since".to_string(), Value::Int64(if i == 3 { i64::MAX } else { 2000 + i as i64 })),
                        ("weight".to_string(), Value::Float64(if i == 4 { f64::NAN } else { i as f64 / 2.0 })),
                    ],
                );
            }
            for (a, b) in [(0, 2), (0, 5), (2, 7), (3, 3), (0, 1), (9, 4)] {
                db.create_edge(people[a], people[b], "KNOWS");
            }
            for i in 0..8 {
                db.create_edge(people[i], cities[i % 4], "LIVES_IN");
            }
            for i in 0..5 {
                db.create_edge_with_props(people[i], comps[i % 3], "WORKS_AT", vec![("role".to_string(), s("dev"))]);
            }
            db.create_edge(things[0], things[1], "REL");
            // a sparse directed cycle (out-degree 1): unbounded variable-length patterns over it are
            // cheap as long as the engine bounds the walk at all (family "varlen-sparse-cycle")
            let mut ring = Vec::new();
            for i in 0..3i64 {
                ring.push(db.create_node_with_props(&["Ring"], vec![("id".to_string(), Value::Int64(i))]));
            }
            for i in 0..3 {
                db.create_edge(ring[i], ring[(i + 1) % 3], "NEXT");
            }
            // RDF
            let st = db.rdf_store();
            let xsd = |t: &str| format!("http://www.w3.org/2001/XMLSchema#{t}");
            let rdf_type = Term::iri("http://www.w3.org/1999/02/22-rdf-syntax-ns#type");
            for (i, n) in ["alice", "bob", "carol"].iter().enumerate() {
                st.insert(Triple::new(ex(n), rdf_type.clone(), foaf("Person")));
                st.insert(Triple::new(ex(n), foaf("name"), Term::literal(names[i])));
                st.insert(Triple::new(ex(n), ex("name"), Term::literal(names[i])));
            }
            st.insert(Triple::new(ex("alice"), foaf("age"), Term::typed_literal("30", xsd("integer"))));
            st.insert(Triple::new(ex("bob"), foaf("age"), Term::typed_literal("9223372036854775807", xsd("integer"))));
            st.insert(Triple::new(ex("carol"), foaf("age"), Term::typed_literal("0", xsd("integer"))));
            st.insert(Triple::new(ex("alice"), ex("age"), Term::typed_literal("-9223372036854775808", xsd("integer"))));
            st.insert(Triple::new(ex("alice"), foaf("knows"), ex("bob")));
            st.insert(Triple::new(ex("bob"), foaf("knows"), ex("carol")));
            st.insert(Triple::new(ex("carol"), foaf("knows"), ex("alice")));
            st.insert(Triple::new(ex("alice"), ex("score"), Term::typed_literal("1.5e0", xsd("double"))));
            st.insert(Triple::new(ex("bob"), ex("score"), Term::typed_literal("NaN", xsd("double"))));
            st.insert(Triple::new(ex("carol"), ex("score"), Term::typed_literal("not a number", xsd("integer"))));
            st.insert(Triple::new(ex("carol"), ex("label"), Term::lang_literal("Zoë 日本", "fr")));
            st.insert(Triple::new(Term::blank("b0"), ex("value"), Term::typed_literal("2024-01-01T00:00:00Z", xsd("dateTime"))));
            st.insert(Triple::new(ex("bob"), ex("value"), Term::literal("")));
        }
        2 => {
            let mut ns = Vec::new();
            for i in 0..6i64 {
                ns.push(db.create_node_with_props(&["K", "Person"], vec![("id".to_string(), Value::Int64(i)), ("name".to_string(), crate::vals::s("k")), ("age".to_string(), Value::Int64(i))]));
            }
            for a in 0..6 {
                for b in 0..6 {
                    if a != b {
                        db.create_edge_with_props(ns[a], ns[b], "KNOWS", vec![("w".to_string(), Value::Int64((a * 6 + b) as i64))]);
                    }
                }
            }
            let st = db.rdf_store();
            for a in 0..6 {
                for b in 0..6 {
                    if a != b {
                        st.insert(Triple::new(ex(&format!("k{a}")), ex("p"), ex(&format!("k{b}"))));
                        st.insert(Triple::new(ex(&format!("k{a}")), foaf("knows"), ex(&format!("k{b}"))));
                    }
                }
            }
        }
        _ => {}
    }
    db
}

fn err_class(e: &grafeo_common::utils::error::Error) -> String {
    use grafeo_common::utils::error::Error as E;
    match e {
        E::Query(q) => format!("query.{:?}", q.kind).to_lowercase(),
        other => {
            let d = format!("{other:?}");
            d.split(|c: char| !c.is_alphanumeric()).next().unwrap_or("other").to_lowercase()
        }
    }
}

fn clean(s: &str, max: usize) -> String {
    let mut o: String = s.chars().take(max).map(|c| if c.is_control() { ' ' } else { c }).collect();
    if s.chars().count() > max {
        o.push('…');
    }
    o
}

fn call(db: &GrafeoDB, lang: u8, text: &str, params: Option<HashMap<String, Value>>) -> grafeo_common::utils::error::Result<grafeo_engine::database::QueryResult> {
    let s = db.session();
    match (lang, params) {
        (L_GQL, None) => s.execute(text),
        (L_GQL, Some(p)) => s.execute_with_params(text, p),
        (L_CYPHER, None) => s.execute_cypher(text),
        // Session has no execute_cypher_with_params; the database-level entry point has
        (L_CYPHER, Some(p)) => db.execute_cypher_with_params(text, p),
        (L_GREMLIN, None) => s.execute_gremlin(text),
        (L_GREMLIN, Some(p)) => s.execute_gremlin_with_params(text, p),
        (L_GRAPHQL, None) => s.execute_graphql(text),
        (L_GRAPHQL, Some(p)) => s.execute_graphql_with_params(text, p),
        (L_SPARQL, None) => s.execute_sparql(text),
        (L_SPARQL, Some(p)) => s.execute_sparql_with_params(text, p),
        _ => unreachable!(),
    }
}

#[inline(never)]
fn selftest_recurse(n: u64, f: fn(u64, usize) -> u64) -> u64 {
    let mut a = [n; 64];
    std::hint::black_box(&mut a);
    let r = std::hint::black_box(f)(n + 1, a.len());
    std::hint::black_box(&mut a);
    r.wrapping_add(a[(n % 64) as usize])
}
#[inline(never)]
fn selftest_recurse2(n: u64, _k: usize) -> u64 {
    selftest_recurse(n, selftest_recurse2)
}

fn selftest(kind: &str) {
    match kind {
        "ok" => {}
        "panic" => panic!("selftest panic"),
        "recurse" => {
            std::hint::black_box(selftest_recurse(0, selftest_recurse2));
        }
        "sleep" => loop {
            std::thread::sleep(Duration::from_millis(100));
        },
        "spin" => loop {
            std::hint::spin_loop();
        },
        "alloc" => {
            let mut keep = Vec::new();
            loop {
                let v: Vec<u8> = vec![0u8; 1 << 30];
                std::hint::black_box(&v);
                keep.push(v);
            }
        }
        "abort" => std::process::abort(),
        "segv" => unsafe {
            std::ptr::write_volatile(std::hint::black_box(8usize as *mut u8), 1);
        },
        "exit" => std::process::exit(7),
        _ => {}
    }
}

struct ChildInput {
    lang: u8,
    fx: u8,
    par: String,
    nest: bool,
    text: String,
}

fn translate_only(lang: u8, text: &str) {
    use grafeo_engine::query as q;
    let _ = match lang {
        L_GQL => q::translate_gql(text).map(|_| ()),
        L_CYPHER => q::translate_cypher(text).map(|_| ()),
        L_GREMLIN => q::translate_gremlin(text).map(|_| ()),
        L_GRAPHQL => q::translate_graphql(text).map(|_| ()),
        _ => q::translate_sparql(text).map(|_| ()),
    };
}

/// Panic site without symbolising a backtrace (which costs seconds per panic in a dev binary
/// with debug info): the panic location of every `#[track_caller]` / arithmetic / indexing panic
/// is the in-repo source line; the enclosing function is read from the source file. Same
/// format as `util::catch`'s site: `<file under /repo>::<function>`.
fn cheap_site(file: &str, line: u32) -> Option<String> {
    use std::sync::OnceLock;
    static SRC: OnceLock<Mutex<HashMap<String, Arc<Vec<String>>>>> = OnceLock::new();
    let cache = SRC.get_or_init(|| Mutex::new(HashMap::new()));
    let lines = {
        let mut c = cache.lock().ok()?;
        if let Some(l) = c.get(file) {
            l.clone()
        } else {
            let body = std::fs::read_to_string(file).ok()?;
            let l = Arc::new(body.lines().map(String::from).collect::<Vec<_>>());
            c.insert(file.to_string(), l.clone());
            l
        }
    };
    // forward scan with a block stack: the innermost enclosing *named* fn of the line
    let target = (line as usize).min(lines.len());
    let mut stack: Vec<Option<String>> = Vec::new();
    let mut pending: Option<String> = None;
    let mut in_block_comment = false;
    for raw in lines.iter().take(target.saturating_sub(1)) {
        let cs: Vec<char> = raw.chars().collect();
        let mut j = 0;
        let mut in_str = false;
        while j < cs.len() {
            let c = cs[j];
            if in_block_comment {
                if c == '*' && cs.get(j + 1) == Some(&'/') {
                    in_block_comment = false;
                    j += 1;
                }
            } else if in_str {
                if c == '\\' {
                    j += 1;
                } else if c == '"' {
                    in_str = false;
                }
            } else if c == '/' && cs.get(j + 1) == Some(&'/') {
                break;
            } else if c == '/' && cs.get(j + 1) == Some(&'*') {
                in_block_comment = true;
                j += 1;
            } else if c == '"' {
                in_str = true;
            } else if c == '\'' && cs.get(j + 2) == Some(&'\'') {
                j += 2; // char literal like '{'
            } else if c == '\'' && cs.get(j + 1) == Some(&'\\') && cs.get(j + 3) == Some(&'\'') {
                j += 3; // escaped char literal
            } else if c == 'f' && cs.get(j + 1) == Some(&'n') && cs.get(j + 2) == Some(&' ') && (j == 0 || !(cs[j - 1].is_alphanumeric() || cs[j - 1] == '_')) {
                let name: String = cs[j + 3..].iter().take_while(|c| c.is_alphanumeric() || **c == '_').collect();
                if !name.is_empty() {
                    pending = Some(name);
                }
            } else if c == '{' {
                stack.push(pending.take());
            } else if c == '}' {
                stack.pop();
            } else if c == ';' && pending.is_some() && !cs[..j].contains(&'{') {
                pending = None; // declaration without body
            }
            j += 1;
        }
        // multi-line strings are rare in the engine sources; reset defensively
        in_str = false;
        let _ = in_str;
    }
    if let Some(name) = stack.iter().rev().find_map(|x| x.clone()) {
        return Some(format!("{}::{}", util::strip_repo(file), name));
    }
    // fallback: nearest preceding fn
    let mut i = target;
    while i > 0 {
        i -= 1;
        let l = lines[i].trim_start();
        if l.starts_with("//") {
            continue;
        }
        if let Some(p) = l.find("fn ") {
            let name: String = l[p + 3..].chars().take_while(|c| c.is_alphanumeric() || *c == '_').collect();
            if !name.is_empty() {
                return Some(format!("{}::{}", util::strip_repo(file), name));
            }
        }
    }
    None
}

static LAST_GLOBAL: Mutex<(String, String)> = Mutex::new((String::new(), String::new()));

fn install_child_hook() {
    let prev = std::panic::take_hook();
    std::panic::set_hook(Box::new(move |info| {
        if let Some(loc) = info.location()
            && let Some(site) = cheap_site(loc.file(), loc.line())
        {
            let at = format!("{}:{}", util::strip_repo(loc.file()), loc.line());
            if let Ok(mut g) = LAST_GLOBAL.lock() {
                *g = (site.clone(), at.clone());
            }
            util::LAST_PANIC.with(|l| *l.borrow_mut() = (site, at));
        } else if info.location().is_some_and(|l| l.file().starts_with('/')) {
            // panic inside a dependency / std without #[track_caller]: full backtrace (slow, rare)
            prev(info);
        } else {
            let at = info.location().map(|l| format!("{}:{}", l.file(), l.line())).unwrap_or_default();
            util::LAST_PANIC.with(|l| *l.borrow_mut() = (at.clone(), at));
        }
    }));
}

/// CPU time consumed by this process so far (all threads), milliseconds.
fn proc_cpu_ms() -> u64 {
    let mut ts = libc::timespec { tv_sec: 0, tv_nsec: 0 };
    unsafe {
        libc::clock_gettime(libc::CLOCK_PROCESS_CPUTIME_ID, &mut ts);
    }
    ts.tv_sec as u64 * 1000 + ts.tv_nsec as u64 / 1_000_000
}

/// Is any thread of this process other than `exclude_tid` runnable (state R) or in
/// uninterruptible wait (D)? A call whose threads are all sleeping is blocked, not starved.
fn any_thread_runnable(exclude_tid: i64) -> bool {
    let Ok(rd) = std::fs::read_dir("/proc/self/task") else { return true };
    for e in rd.flatten() {
        let name = e.file_name();
        let Some(tid) = name.to_str().and_then(|s| s.parse::<i64>().ok()) else { continue };
        if tid == exclude_tid {
            continue;
        }
        if let Ok(stat) = std::fs::read_to_string(e.path().join("stat")) {
            if let Some(p) = stat.rfind(')') {
                let st = stat[p + 1..].trim_start().chars().next().unwrap_or('R');
                if st == 'R' || st == 'D' {
                    return true;
                }
            }
        }
    }
    false
}

fn child_main(batch: &str) -> ! {
    install_child_hook();
    unsafe {
        let lim = libc::rlimit { rlim_cur: RLIMIT_AS_BYTES, rlim_max: RLIMIT_AS_BYTES };
        libc::setrlimit(libc::RLIMIT_AS, &lim);
        let nocore = libc::rlimit { rlim_cur: 0, rlim_max: 0 };
        libc::setrlimit(libc::RLIMIT_CORE, &nocore);
    }
    let out_path = std::env::var("VH_C12_OUT").expect("VH_C12_OUT");
    let bound_ms: u64 = std::env::var("VH_C12_BOUND_MS").ok().and_then(|s| s.parse().ok()).unwrap_or(BOUND_S * 1000);
    let translate_bound_ms: u64 = std::env::var("VH_C12_TRANSLATE_BOUND_MS").ok().and_then(|s| s.parse().ok()).unwrap_or(0);
    let seed: u64 = std::env::var("VH_C12_SEED").ok().and_then(|s| s.parse().ok()).unwrap_or(1);
    let body = std::fs::read_to_string(batch).expect("batch file");
    let mut inputs = Vec::new();
    for l in body.lines() {
        let v: serde_json::Value = serde_json::from_str(l).expect("batch line");
        inputs.push(ChildInput {
            lang: v[0].as_u64().unwrap() as u8,
            fx: v[1].as_u64().unwrap() as u8,
            par: v[2].as_str().unwrap().to_string(),
            nest: matches!(v[3].as_str(), Some("nest") | Some("explosive")),
            text: v[5].as_str().unwrap().to_string(),
        });
    }
    drop(body);
    let out = Arc::new(Mutex::new(std::fs::OpenOptions::new().create(true).append(true).open(&out_path).expect("result file")));
    let t0 = Instant::now();
    let cur = Arc::new(AtomicI64::new(-1));
    let since = Arc::new(AtomicU64::new(0));
    // bound in force for the running call: translate pre-pass or the real call
    let bound_now = Arc::new(AtomicU64::new(bound_ms));
    // process CPU time at the start of the running call
    let cpu0 = Arc::new(AtomicU64::new(0));
    {
        let (cur, since, out, bound_now, cpu0) = (cur.clone(), since.clone(), out.clone(), bound_now.clone(), cpu0.clone());
        std::thread::Builder::new()
            .name("c12-watchdog".into())
            .spawn(move || {
                // A call has exceeded its bound b when BOTH b of wall-clock have passed AND the
                // process has either burnt b of CPU time inside the call (it is running, not merely
                // starved by other load on the machine) or has made no CPU progress at all for a
                // while (it is blocked: sleep, deadlock). On an idle machine this is the plain
                // wall-clock bound for a spinning call; on an overloaded one it does not fire early.
                let mut seen: (i64, u64) = (-1, 0);
                // blocked-call detection: samples of "some thread is runnable" over a window
                let my_tid = unsafe { libc::syscall(libc::SYS_gettid) } as i64;
                let mut win_start = Instant::now();
                let (mut samples, mut runnable) = (0u32, 0u32);
                let mut stalled = false;
                let mut tick = 0u32;
                let ncpu = std::thread::available_parallelism().map(|n| n.get()).unwrap_or(16) as f64;
                let mut load_factor = 1.0f64;
                let mut load_checked = Instant::now() - Duration::from_secs(2);
                loop {
                    std::thread::sleep(Duration::from_millis(25));
                    let i = cur.load(Ordering::SeqCst);
                    let s = since.load(Ordering::SeqCst);
                    if i < 0 || s == 0 {
                        seen = (-1, 0);
                        continue;
                    }
                    let cpu = proc_cpu_ms();
                    let b = bound_now.load(Ordering::SeqCst);
                    let window = Duration::from_millis(b.clamp(1_000, 5_000));
                    if seen != (i, s) {
                        seen = (i, s);
                        win_start = Instant::now();
                        samples = 0;
                        runnable = 0;
                        stalled = false;
                    }
                    // sample thread states only for calls that have been running for a while
                    tick = tick.wrapping_add(1);
                    if tick % 4 == 0 && t0.elapsed().as_millis() as u64 > s + b.min(400) / 2 {
                        samples += 1;
                        if any_thread_runnable(my_tid) {
                            runnable += 1;
                        }
                    }
                    if win_start.elapsed() >= window {
                        stalled = samples >= 8 && runnable * 20 < samples;
                        win_start = Instant::now();
                        samples = 0;
                        runnable = 0;
                    }
                    let now = t0.elapsed().as_millis() as u64;
                    // on an oversubscribed machine (load average above the core count) the wall-clock
                    // part of the bound is stretched by the oversubscription factor (at most 10x)
                    if load_checked.elapsed() > Duration::from_secs(1) {
                        load_checked = Instant::now();
                        let l1 = std::fs::read_to_string("/proc/loadavg").ok().and_then(|s| s.split(' ').next().and_then(|x| x.parse::<f64>().ok())).unwrap_or(0.0);
                        load_factor = (l1 / ncpu).clamp(1.0, 10.0);
                    }
                    if (now.saturating_sub(s) as f64) <= b as f64 * load_factor {
                        continue;
                    }
                    let cpu_in_call = cpu.saturating_sub(cpu0.load(Ordering::SeqCst));
                    if !(cpu_in_call > b || stalled) {
                        continue;
                    }
                    if cur.load(Ordering::SeqCst) == i && since.load(Ordering::SeqCst) == s && bound_now.load(Ordering::SeqCst) == b {
                        let line = format!("{i}\t{}\t{}\t\t\t\n", if b == bound_ms { "T" } else { "S" }, now - s);
                        if let Ok(mut f) = out.try_lock() {
                            let _ = f.write_all(line.as_bytes());
                        } else if let Ok(mut f) = std::fs::OpenOptions::new().append(true).open(std::env::var("VH_C12_OUT").unwrap()) {
                            let _ = f.write_all(line.as_bytes());
                        }
                        std::process::abort();
                    }
                }
            })
            .expect("watchdog");
    }
    let worker = {
        let (cur, since, out, bound_now, cpu0) = (cur.clone(), since.clone(), out.clone(), bound_now.clone(), cpu0.clone());
        std::thread::Builder::new()
            .name("c12-worker".into())
            .stack_size(STACK_BYTES)
            .spawn(move || {
                let mut fx: Vec<Option<GrafeoDB>> = vec![None, None, None];
                for (i, inp) in inputs.iter().enumerate() {
                    // fixtures 3..5: kind 0..2 created freshly for this input alone (every directed input:
                    // its outcome must not depend on what earlier inputs of the batch did to the data)
                    let k = (inp.fx % 3) as usize;
                    if inp.fx >= 3 {
                        fx[k] = None;
                    }
                    if inp.lang != L_SELFTEST && fx[k].is_none() {
                        fx[k] = Some(build_fixture(k as u8));
                    }
                    let params = build_params(&inp.par, seed);
                    util::LAST_PANIC.with(|l| *l.borrow_mut() = (String::new(), String::new()));
                    if let Ok(mut g) = LAST_GLOBAL.lock() {
                        *g = (String::new(), String::new());
                    }
                    if translate_bound_ms > 0 && translate_bound_ms < bound_ms && inp.lang != L_SELFTEST && !inp.nest {
                        bound_now.store(translate_bound_ms, Ordering::SeqCst);
                        cpu0.store(proc_cpu_ms(), Ordering::SeqCst);
                        since.store((t0.elapsed().as_millis() as u64).max(1), Ordering::SeqCst);
                        cur.store(i as i64, Ordering::SeqCst);
                        let _ = util::catch(|| translate_only(inp.lang, &inp.text));
                        cur.store(-1, Ordering::SeqCst);
                        util::LAST_PANIC.with(|l| *l.borrow_mut() = (String::new(), String::new()));
                        if let Ok(mut g) = LAST_GLOBAL.lock() {
                            *g = (String::new(), String::new());
                        }
                    }
                    bound_now.store(bound_ms, Ordering::SeqCst);
                    cpu0.store(proc_cpu_ms(), Ordering::SeqCst);
                    since.store((t0.elapsed().as_millis() as u64).max(1), Ordering::SeqCst);
                    cur.store(i as i64, Ordering::SeqCst);
                    let c_start = proc_cpu_ms();
                    let r = if inp.lang == L_SELFTEST {
                        util::catch(|| {
                            selftest(&inp.text);
                            Ok((0usize, String::new()))
                        })
                    } else {
                        let db = fx[k].as_ref().unwrap();
                        util::catch(|| match call(db, inp.lang, &inp.text, params) {
                            Ok(res) => Ok((res.row_count(), String::new())),
                            Err(e) => Err((err_class(&e), e.to_string())),
                        })
                    };
                    cur.store(-1, Ordering::SeqCst);
                    // reported cost of a call: CPU time of the process during the call (wall-clock says
                    // little on a loaded machine)
                    let ms = proc_cpu_ms().saturating_sub(c_start);
                    let line = match r {
                        Ok(Ok((rows, _))) => format!("{i}\tok\t{ms}\t{rows}\t\t\n"),
                        Ok(Err((class, msg))) => format!("{i}\terr\t{ms}\t{class}\t\t{}\n", clean(&msg, 100)),
                        Err(mut p) => {
                            if p.site.is_empty() {
                                // the panic was raised on another thread (parallel operator) and re-thrown here
                                if let Ok(g) = LAST_GLOBAL.lock() {
                                    p.site = g.0.clone();
                                    p.at = g.1.clone();
                                }
                            }
                            format!("{i}\tpanic\t{ms}\t{}\t{}\t{}\n", clean(&p.site, 200), clean(&p.at, 200), clean(&p.msg, 160))
                        }
                    };
                    {
                        let mut f = out.lock().unwrap();
                        let _ = f.write_all(line.as_bytes());
                    }
                    // keep fixtures small and independent of history: rebuild after growth
                    if inp.lang != L_SELFTEST {
                        let grown = {
                            let db = fx[k].as_ref().unwrap();
                            let base = [(0usize, 0usize, 0usize), (21, 30, 25), (6, 30, 60)][k];
                            db.node_count() > base.0 + 40 || db.edge_count() > base.1 + 150 || db.rdf_store().len() > base.2 + 120
                        };
                        if grown {
                            fx[k] = None;
                        }
                    }
                }
            })
            .expect("worker")
    };
    let ok = worker.join().is_ok();
    std::process::exit(if ok { 0 } else { 3 });
}

// =====================================================================================
// parent: running children
// =====================================================================================

#[derive(Clone, Debug, PartialEq)]
pub enum Outcome {
    Ok,
    Err(String),
    Panic { site: String, at: String, msg: String },
    StackOverflow,
    Rlimit,
    Abort(String),
    Signal(String),
    Exit(i32),
    Timeout,
    /// the translate pre-pass alone exceeded TRANSLATE_BOUND_MS (to be judged with the real bounds)
    Suspect,
    /// the harness could not run / classify (never a verdict about the engine)
    Harness(String),
}

impl Outcome {
    fn is_death(&self) -> bool {
        !matches!(self, Outcome::Ok | Outcome::Err(_) | Outcome::Panic { .. })
    }
    fn class(&self) -> &'static str {
        match self {
            Outcome::Ok => "ok",
            Outcome::Err(_) => "err",
            Outcome::Panic { .. } => "panic",
            Outcome::StackOverflow => "stackoverflow",
            Outcome::Rlimit => "rlimit",
            Outcome::Abort(_) => "abort",
            Outcome::Signal(_) => "signal",
            Outcome::Exit(_) => "exit",
            Outcome::Timeout => "timeout",
            Outcome::Suspect => "suspect",
            Outcome::Harness(_) => "harness",
        }
    }
}

struct ChildRun {
    /// (index relative to the slice, outcome, elapsed ms) for every input that returned
    lines: Vec<(usize, Outcome, u64)>,
    /// the process died: (relative index of the culprit, outcome class, stderr tail)
    death: Option<(usize, Outcome, String)>,
}

static CHILD_SEQ: AtomicUsize = AtomicUsize::new(0);
static CHILDREN: AtomicUsize = AtomicUsize::new(0);

fn sig_name(s: i32) -> String {
    match s {
        libc::SIGSEGV => "SIGSEGV".into(),
        libc::SIGBUS => "SIGBUS".into(),
        libc::SIGABRT => "SIGABRT".into(),
        libc::SIGILL => "SIGILL".into(),
        libc::SIGFPE => "SIGFPE".into(),
        libc::SIGKILL => "SIGKILL".into(),
        libc::SIGTRAP => "SIGTRAP".into(),
        other => format!("SIG{other}"),
    }
}

fn run_child(dir: &Path, inputs: &[Input], bound_ms: u64, seed: u64) -> ChildRun {
    run_child2(dir, inputs, bound_ms, seed, false)
}

fn run_child2(dir: &Path, inputs: &[Input], bound_ms: u64, seed: u64, prepass: bool) -> ChildRun {
    use std::os::unix::process::ExitStatusExt;
    let id = CHILD_SEQ.fetch_add(1, Ordering::Relaxed);
    CHILDREN.fetch_add(1, Ordering::Relaxed);
    let batch = dir.join(format!("b{id}.in"));
    let outp = dir.join(format!("b{id}.out"));
    let errp = dir.join(format!("b{id}.err"));
    {
        let mut f = std::io::BufWriter::new(std::fs::File::create(&batch).expect("batch file"));
        for i in inputs {
            let _ = writeln!(f, "{}", i.to_json());
        }
    }
    let _ = std::fs::write(&outp, b"");
    let errf = std::fs::File::create(&errp).expect("stderr file");
    let exe = std::env::current_exe().expect("current_exe");
    let spawned = std::process::Command::new(exe)
        .arg("C12")
        .env("VH_C12_CHILD", &batch)
        .env("VH_C12_OUT", &outp)
        .env("VH_C12_BOUND_MS", bound_ms.to_string())
        .env("VH_C12_SEED", seed.to_string())
        .env("VH_C12_TRANSLATE_BOUND_MS", if prepass { TRANSLATE_BOUND_MS.to_string() } else { "0".to_string() })
        .env_remove("VH_PANIC_VERBOSE")
        .env_remove("VH_BT")
        .env_remove("RUST_BACKTRACE")
        .stdin(std::process::Stdio::null())
        .stdout(std::process::Stdio::null())
        .stderr(errf)
        .spawn();
    let mut child = match spawned {
        Ok(c) => c,
        Err(e) => {
            return ChildRun { lines: vec![], death: Some((0, Outcome::Harness(format!("spawn failed: {e}")), String::new())) };
        }
    };
    // wait; parent-side safety net: no progress in the result file for bound + 30 s => kill
    let mut last_len = 0u64;
    let mut last_progress = Instant::now();
    let mut killed = false;
    let status = loop {
        match child.try_wait() {
            Ok(Some(st)) => break Some(st),
            Ok(None) => {}
            Err(_) => break None,
        }
        std::thread::sleep(Duration::from_millis(3));
        if last_progress.elapsed() > Duration::from_millis(500) {
            let len = std::fs::metadata(&outp).map(|m| m.len()).unwrap_or(0);
            if len != last_len {
                last_len = len;
                last_progress = Instant::now();
            } else if last_progress.elapsed() > Duration::from_millis(bound_ms * 12 + 60_000) {
                let _ = child.kill();
                killed = true;
            }
        }
    };
    let out = std::fs::read_to_string(&outp).unwrap_or_default();
    let err = String::from_utf8_lossy(&std::fs::read(&errp).unwrap_or_default()).to_string();
    let _ = std::fs::remove_file(&batch);
    let _ = std::fs::remove_file(&outp);
    let _ = std::fs::remove_file(&errp);
    let mut lines = Vec::new();
    let mut timeout_at: Option<usize> = None;
    let mut suspect = false;
    for l in out.lines() {
        let f: Vec<&str> = l.split('\t').collect();
        if f.len() < 6 {
            continue;
        }
        let Ok(i) = f[0].parse::<usize>() else { continue };
        let ms: u64 = f[2].parse().unwrap_or(0);
        match f[1] {
            "ok" => lines.push((i, Outcome::Ok, ms)),
            "err" => lines.push((i, Outcome::Err(f[3].to_string()), ms)),
            "panic" => lines.push((i, Outcome::Panic { site: f[3].to_string(), at: f[4].to_string(), msg: f[5].to_string() }, ms)),
            "T" => timeout_at = Some(i),
            "S" => {
                timeout_at = Some(i);
                suspect = true;
            }
            _ => {}
        }
    }
    let tail: String = {
        let ls: Vec<&str> = err.lines().filter(|l| !l.trim().is_empty()).collect();
        ls[ls.len().saturating_sub(6)..].join(" | ")
    };
    let tail = clean(&tail, 600);
    let next = lines.iter().map(|x| x.0 + 1).max().unwrap_or(0);
    let done = next >= inputs.len() && timeout_at.is_none();
    let death = match status {
        Some(st) if st.success() && done => None,
        Some(st) => {
            let o = if timeout_at.is_some() {
                if suspect { Outcome::Suspect } else { Outcome::Timeout }
            } else if killed {
                Outcome::Harness("child made no progress and ignored its watchdog; killed by the parent".into())
            } else if err.contains("has overflowed its stack") || err.contains("stack overflow") {
                Outcome::StackOverflow
            } else if err.contains("memory allocation of") || err.contains("out of memory") {
                Outcome::Rlimit
            } else if let Some(s) = st.signal() {
                if s == libc::SIGABRT {
                    Outcome::Abort(tail.clone())
                } else if s == libc::SIGKILL {
                    Outcome::Harness("child killed by SIGKILL (OOM killer?)".into())
                } else {
                    Outcome::Signal(sig_name(s))
                }
            } else if st.code() == Some(3) {
                Outcome::Harness(format!("child worker thread failed: {tail}"))
            } else if st.success() {
                Outcome::Harness("child exited 0 before finishing its batch".into())
            } else {
                Outcome::Exit(st.code().unwrap_or(-1))
            };
            Some((timeout_at.unwrap_or(next).min(inputs.len().saturating_sub(1)), o, tail))
        }
        None => Some((next.min(inputs.len().saturating_sub(1)), Outcome::Harness("wait failed".into()), tail)),
    };
    ChildRun { lines, death }
}

// =====================================================================================
// parent: accumulation
// =====================================================================================

#[derive(Default)]
struct Acc {
    counters: BTreeMap<String, u64>,
    /// signature -> (occurrences, smallest witness, detail)
    deviations: BTreeMap<String, (u64, Input, serde_json::Value)>,
    nontrivial: HashSet<u64>,
    evals: u64,
    inconclusive: Vec<String>,
    samples: Vec<serde_json::Value>,
    nesting: BTreeMap<String, serde_json::Value>,
    max_ms: BTreeMap<String, (u64, String)>,
    selftest: BTreeMap<String, String>,
    /// panic signature -> (a witness reproduced alone, attempts)
    alone: BTreeMap<String, (bool, u32)>,
    /// suspected translate hangs seen per signature
    suspects: BTreeMap<String, u32>,
    /// development aid: VH_C12_DUMP=<file> logs one line per judged input
    dump: Option<std::io::BufWriter<std::fs::File>>,
}

impl Acc {
    fn count(&mut self, k: String, n: u64) {
        *self.counters.entry(k).or_insert(0) += n;
    }
    fn deviation(&mut self, sig: String, inp: &Input, detail: serde_json::Value) {
        let e = self.deviations.entry(sig).or_insert_with(|| (0, inp.clone(), detail.clone()));
        e.0 += 1;
        let alone = |d: &serde_json::Value| d["extra"]["reproduces_alone_on_fresh_fixture"] == json!(true);
        if (alone(&detail) && !alone(&e.2)) || (alone(&detail) == alone(&e.2) && inp.text.len() < e.1.text.len()) {
            e.1 = inp.clone();
            e.2 = detail;
        }
    }
}

/// Coarse, input-independent class of a panic message: digits and punctuation dropped,
/// first seven words ("attempt to add with overflow", "byte index is not a char boundary").
pub fn msg_class(msg: &str) -> String {
    let t: String = msg.chars().map(|c| if c.is_ascii_alphabetic() { c.to_ascii_lowercase() } else { ' ' }).collect();
    let w: Vec<&str> = t.split_whitespace().take(7).collect();
    if w.is_empty() { "panic".into() } else { w.join("-") }
}

pub fn signature(lang: u8, o: &Outcome, cons: &str) -> String {
    let l = lang_name(lang);
    match o {
        Outcome::Panic { site, msg, .. } => format!("c12:{l}:panic@{site}:{}", msg_class(msg)),
        Outcome::StackOverflow => format!("c12:{l}:stackoverflow@stackoverflow:{cons}"),
        Outcome::Timeout => format!("c12:{l}:timeout@timeout:{cons}"),
        Outcome::Rlimit => format!("c12:{l}:rlimit@rlimit:{cons}"),
        Outcome::Abort(_) => format!("c12:{l}:abort@abort:{cons}"),
        Outcome::Signal(s) => format!("c12:{l}:signal@{s}:{cons}"),
        Outcome::Exit(c) => format!("c12:{l}:exit@exit{c}:{cons}"),
        _ => format!("c12:{l}:{}", o.class()),
    }
}

fn record(acc: &Mutex<Acc>, inp: &Input, o: &Outcome, ms: u64, extra: serde_json::Value) {
    let mut a = acc.lock().unwrap();
    let l = lang_name(inp.lang);
    if let Some(f) = a.dump.as_mut() {
        let site = if let Outcome::Panic { site, msg, .. } = o { format!("{site} {msg}") } else { String::new() };
        let _ = writeln!(f, "{l}\t{}\t{}\t{}\t{}\t{ms}\t{}\t{}", inp.fam, inp.fx, inp.par, match o { Outcome::Err(c) => format!("err.{c}"), x => x.class().to_string() }, clean(&inp.text, 300), site);
    }
    a.evals += 1;
    a.count(format!("{l}.inputs"), 1);
    a.count(format!("{l}.fam.{}", inp.fam), 1);
    let cls = match o {
        Outcome::Err(c) => format!("err.{c}"),
        other => other.class().to_string(),
    };
    a.count(format!("{l}.outcome.{cls}"), 1);
    if !inp.par.is_empty() {
        a.count(format!("{l}.with_params"), 1);
    }
    a.count(format!("fixture.{}{}", ["empty", "small", "clique"][(inp.fx % 3) as usize], if inp.fx >= 3 { ".fresh" } else { ".shared" }), 1);
    if matches!(o, Outcome::Ok | Outcome::Err(_)) {
        let m = a.max_ms.entry(l.to_string()).or_insert((0, String::new()));
        if ms > m.0 {
            *m = (ms, clean(&inp.text, 120));
        }
    }
    // non-trivial: got past lexer and parser, or deviated
    let past_parser = match o {
        Outcome::Ok => true,
        Outcome::Err(c) => c != "query.lexer" && c != "query.syntax",
        _ => true,
    };
    if past_parser {
        a.nontrivial.insert(crate::rng::hash_str(&format!("{}|{}|{}|{}", inp.lang, inp.fx, inp.par, inp.text)));
    }
    if a.samples.len() < 40 && (a.evals % 997 == 1) {
        let s = json!({"lang": l, "family": inp.fam, "fixture": inp.fx, "params": inp.par, "text": clean(&inp.text, 200), "outcome": cls});
        a.samples.push(s);
    }
    match o {
        Outcome::Ok | Outcome::Err(_) => {}
        Outcome::Harness(why) => {
            let w = format!("harness: {why} (lang {l}, family {})", inp.fam);
            if a.inconclusive.len() < 20 {
                a.inconclusive.push(w);
            }
        }
        _ => {
            let sig = signature(inp.lang, o, &inp.cons);
            let mut d = json!({
                "language": l, "family": inp.fam, "fixture": inp.fx, "params": inp.par,
                "input": if inp.text.len() <= 400 { inp.text.clone() } else { format!("{} … ({} bytes)", clean(&inp.text, 120), inp.text.len()) },
                "outcome": o.class(), "elapsed_ms": ms,
            });
            if let Outcome::Panic { at, msg, .. } = o {
                d["panic_at"] = json!(at);
                d["panic_msg"] = json!(msg);
            }
            if let Outcome::Abort(t) = o {
                d["stderr"] = json!(t);
            }
            if !extra.is_null() {
                d["extra"] = extra;
            }
            a.deviation(sig, inp, d);
        }
    }
}

/// Run a batch to completion: continue after every death; confirm each culprit alone.
fn process_batch(dir: &Path, acc: &Mutex<Acc>, inputs: &[Input], seed: u64) {
    let mut from = 0usize;
    while from < inputs.len() {
        let r = run_child2(dir, &inputs[from..], BOUND_S * 1000, seed, true);
        for (i, o, ms) in &r.lines {
            if from + i >= inputs.len() {
                continue;
            }
            let inp = &inputs[from + i];
            let mut extra = serde_json::Value::Null;
            if let Outcome::Panic { .. } = o {
                // a panic seen inside a batch may depend on what earlier inputs did to the fixture:
                // until a signature has a witness that reproduces alone on fresh fixtures, try (≤ 6 times)
                let sig = signature(inp.lang, o, &inp.cons);
                let need = {
                    let mut a = acc.lock().unwrap();
                    let st = a.alone.entry(sig.clone()).or_insert((false, 0));
                    if !st.0 && st.1 < 6 {
                        st.1 += 1;
                        true
                    } else {
                        false
                    }
                };
                if need {
                    let (o2, _, _) = run_alone(dir, inp, BOUND_S * 1000, seed);
                    let same = signature(inp.lang, &o2, &inp.cons) == sig;
                    if same {
                        acc.lock().unwrap().alone.get_mut(&sig).unwrap().0 = true;
                    }
                    extra = json!({"reproduces_alone_on_fresh_fixture": same});
                }
            }
            record(acc, inp, o, *ms, extra);
        }
        let Some((rel, mut kind, tail)) = r.death else { break };
        let k = from + rel;
        if kind == Outcome::Suspect {
            // translate alone exceeded the short bound: judge with the real entry point and the real
            // bound, alone — for the first few per signature; the rest are counted, not judged
            let mut t = inputs[k].clone();
            t.cons = "translate".into();
            let sig = signature(t.lang, &Outcome::Timeout, &t.cons);
            let go = {
                let mut a = acc.lock().unwrap();
                a.count(format!("{}.translate_over_{}ms", lang_name(t.lang), TRANSLATE_BOUND_MS), 1);
                let n = a.suspects.entry(sig).or_insert(0);
                *n += 1;
                *n <= SUSPECT_CONFIRMATIONS
            };
            if !go {
                let mut a = acc.lock().unwrap();
                a.count(format!("{}.suspected_translate_hang_not_judged", lang_name(t.lang)), 1);
                from = k + 1;
                continue;
            }
            let (o, ms, _) = run_alone(dir, &t, BOUND_S * 1000, seed);
            if o != Outcome::Timeout {
                // false suspicion (slow machine) or another outcome: that is the judgement
                record(acc, &inputs[k], &o, ms, json!({"note": "translate pre-pass was slow, real call judged alone"}));
                let mut a = acc.lock().unwrap();
                if let Some(n) = a.suspects.get_mut(&signature(t.lang, &Outcome::Timeout, &t.cons)) {
                    *n -= 1;
                }
                from = k + 1;
                continue;
            }
            kind = Outcome::Timeout;
            let alone = run_child(dir, std::slice::from_ref(&t), CONFIRM_BOUND_S * 1000, seed);
            match alone.death {
                Some((_, k2, tail2)) => {
                    let extra = json!({"phase": "translate (lex/parse/translate) did not return", "alone": k2.class(), "stderr": tail2, "confirm_bound_ms": CONFIRM_BOUND_S * 1000});
                    record(acc, &t, &k2, bound_of(&k2, CONFIRM_BOUND_S * 1000), extra);
                }
                None => {
                    let (o, ms) = alone.lines.first().map(|x| (x.1.clone(), x.2)).unwrap_or((Outcome::Harness("no result line".into()), 0));
                    record(acc, &t, &o, ms, json!({"note": "exceeded 10 s alone once, returned within 60 s"}));
                    let mut a = acc.lock().unwrap();
                    a.count("unreproduced.timeout".into(), 1);
                    if a.inconclusive.len() < 20 {
                        a.inconclusive.push(format!("timeout (> {BOUND_S} s) not reproduced within {CONFIRM_BOUND_S} s (returned after {ms} ms): {} input {}", lang_name(t.lang), clean(&t.text, 120)));
                    }
                }
            }
            let _ = kind;
            from = k + 1;
            continue;
        }
        if let Outcome::Harness(_) = kind {
            record(acc, &inputs[k], &kind, 0, json!({"stderr": tail}));
            from = k + 1;
            continue;
        }
        // the single culprit alone (fresh fixtures); a timeout gets the long bound
        let bound = if kind == Outcome::Timeout { CONFIRM_BOUND_S } else { BOUND_S } * 1000;
        let alone = run_child(dir, &inputs[k..=k], bound, seed);
        match alone.death {
            Some((_, k2, tail2)) => {
                let extra = json!({"in_batch": kind.class(), "alone": k2.class(), "stderr": tail2, "confirm_bound_ms": bound});
                record(acc, &inputs[k], &k2, bound_of(&k2, bound), extra);
            }
            None => {
                let (o, ms) = alone.lines.first().map(|x| (x.1.clone(), x.2)).unwrap_or((Outcome::Harness("no result line".into()), 0));
                record(acc, &inputs[k], &o, ms, json!({"note": "died in batch, returned alone", "in_batch": kind.class()}));
                let mut a = acc.lock().unwrap();
                a.count(format!("unreproduced.{}", kind.class()), 1);
                let why = if kind == Outcome::Timeout {
                    format!(
                        "timeout (> {BOUND_S} s) in a batch was not reproduced alone within {CONFIRM_BOUND_S} s (returned after {ms} ms): {} input {}",
                        lang_name(inputs[k].lang),
                        clean(&inputs[k].text, 120)
                    )
                } else {
                    format!(
                        "child death ({}) in a batch was not reproduced by the culprit alone: {} input {} [{}]",
                        kind.class(),
                        lang_name(inputs[k].lang),
                        clean(&inputs[k].text, 120),
                        clean(&tail, 200)
                    )
                };
                if a.inconclusive.len() < 20 {
                    a.inconclusive.push(why);
                }
            }
        }
        from = k + 1;
    }
}
fn bound_of(o: &Outcome, bound: u64) -> u64 {
    if *o == Outcome::Timeout { bound } else { 0 }
}

/// Outcome of one input alone.
fn run_alone(dir: &Path, inp: &Input, bound_ms: u64, seed: u64) -> (Outcome, u64, String) {
    let r = run_child(dir, std::slice::from_ref(inp), bound_ms, seed);
    match r.death {
        Some((_, o, tail)) => (o, 0, tail),
        None => r.lines.first().map(|x| (x.1.clone(), x.2, String::new())).unwrap_or((Outcome::Harness("no result line".into()), 0, String::new())),
    }
}

/// a timeout in the nesting family is a deviation only for texts up to this size
const NEST_TIMEOUT_MAX_BYTES: usize = 64 << 10;
pub const LADDER: [usize; 9] = [10, 30, 100, 300, 1000, 3000, 10_000, 30_000, 100_000];

/// Depth ladder for one nesting construct: every rung alone in a child, ascending, until the
/// first death; then bisect between the last surviving and the first dying depth.
fn process_nest(dir: &Path, acc: &Mutex<Acc>, spec: &cgen::Nest, seed: u64) {
    let mk = |d: usize| Input::new(spec.lang, spec.fx, "nest", (spec.make)(d)).cons(spec.name);
    let mut last_ok = 0usize;
    let mut first_bad: Option<(usize, Outcome, String)> = None;
    let mut rungs = Vec::new();
    let mut slow_large: Option<(usize, usize)> = None;
    for &d in &LADDER {
        let inp = mk(d);
        let (mut o, ms, mut tail) = run_alone(dir, &inp, BOUND_S * 1000, seed);
        if o == Outcome::Timeout && inp.text.len() > NEST_TIMEOUT_MAX_BYTES {
            // super-linear time on a very large text is not "hangs on small input": evidence only
            rungs.push(json!({"depth": d, "outcome": "slow", "bytes": inp.text.len()}));
            slow_large = Some((d, inp.text.len()));
            break;
        }
        if o == Outcome::Timeout {
            // confirmation with the long bound
            let (o2, ms2, tail2) = run_alone(dir, &inp, CONFIRM_BOUND_S * 1000, seed);
            if !o2.is_death() {
                let mut a = acc.lock().unwrap();
                a.count("unreproduced.timeout".into(), 1);
                if a.inconclusive.len() < 20 {
                    a.inconclusive.push(format!(
                        "nesting {}:{} depth {d}: exceeded {BOUND_S} s once, returned alone after {ms2} ms",
                        lang_name(spec.lang),
                        spec.name
                    ));
                }
            }
            o = o2;
            tail = tail2;
        }
        rungs.push(json!({"depth": d, "outcome": o.class(), "ms": ms, "bytes": inp.text.len()}));
        if o.is_death() && !matches!(o, Outcome::Harness(_)) {
            first_bad = Some((d, o, tail));
            break;
        }
        record(acc, &inp, &o, ms, json!({"depth": d}));
        last_ok = d;
    }
    let key = format!("{}:{}", lang_name(spec.lang), spec.name);
    if let Some((mut hi, mut o_hi, mut tail_hi)) = first_bad {
        let mut lo = last_ok;
        // bisect (not for timeouts: each probe would cost the full bound)
        if o_hi != Outcome::Timeout {
            while hi - lo > (lo / 50).max(1) {
                let mid = lo + (hi - lo) / 2;
                let (o, _, tail) = run_alone(dir, &mk(mid), BOUND_S * 1000, seed);
                acc.lock().unwrap().evals += 1;
                if o.is_death() && !matches!(o, Outcome::Harness(_)) && o != Outcome::Timeout {
                    hi = mid;
                    o_hi = o;
                    tail_hi = tail;
                } else {
                    lo = mid;
                }
            }
        }
        let inp = mk(hi);
        let extra = json!({"construct": spec.name, "smallest_failing_depth": hi, "largest_surviving_depth_probed": lo,
            "input_shape": clean(&(spec.make)(3), 200), "stderr": tail_hi, "ladder": rungs});
        record(acc, &inp, &o_hi, bound_of(&o_hi, CONFIRM_BOUND_S * 1000), extra);
        acc.lock().unwrap().nesting.insert(key, json!({"first_failing_depth": hi, "outcome": o_hi.class(), "survives": lo}));
    } else {
        acc.lock().unwrap().nesting.insert(key, json!({"first_failing_depth": null, "survives": last_ok, "ladder": rungs,
            "slow_on_large_text": slow_large.map(|(d, b)| json!({"depth": d, "bytes": b, "note": "did not return within the confirmation bound; text larger than the size for which a timeout counts"}))}));
    }
}

/// Harness self-test: every outcome class the monitor claims to detect is produced on purpose
/// by a pseudo-input and must be classified correctly, on every run.
fn process_selftest(dir: &Path, acc: &Mutex<Acc>, seed: u64) {
    let cases: [(&str, &str); 8] = [
        ("ok", "ok"),
        ("panic", "panic"),
        ("recurse", "stackoverflow"),
        ("sleep", "timeout"),
        ("spin", "timeout"),
        ("alloc", "rlimit"),
        ("abort", "abort"),
        ("segv", "signal"),
    ];
    // as one batch (detection + continuation after each death) with a short bound
    let inputs: Vec<Input> = cases.iter().map(|(k, _)| Input::new(L_SELFTEST, 0, "selftest", *k)).collect();
    let mut got: BTreeMap<String, String> = BTreeMap::new();
    let mut from = 0;
    while from < inputs.len() {
        let r = run_child(dir, &inputs[from..], 5000, seed);
        for (i, o, _) in &r.lines {
            got.insert(inputs[from + i].text.clone(), o.class().to_string());
        }
        match r.death {
            Some((rel, o, _)) => {
                got.insert(inputs[from + rel].text.clone(), o.class().to_string());
                from += rel + 1;
            }
            None => break,
        }
    }
    let mut a = acc.lock().unwrap();
    for (k, want) in cases {
        let g = got.get(k).cloned().unwrap_or_else(|| "missing".into());
        if g != want {
            a.inconclusive.push(format!("self-test: pseudo-input '{k}' classified as '{g}', expected '{want}' — outcome detection is broken"));
        }
        a.selftest.insert(k.to_string(), g);
    }
}

pub enum Task {
    Batch(Vec<Input>),
    /// generated lazily in the worker: (language, batch number, inputs)
    Random(u8, u64, usize),
    Nest(cgen::Nest),
    SelfTest,
}

pub fn run(tier: Tier, seed: u64) -> ! {
    if let Ok(b) = std::env::var("VH_C12_CHILD") {
        child_main(&b);
    }
    let mut rep = Report::new("C12", tier, seed, "exploration");
    rep.rule = "one evaluation = one (language, fixture, parameter map, query text) handed to Session::execute* in an isolated child; \
                non-trivial = the text got past lexer and parser (result, or an error other than lexer/syntax) or ended in a deviation; \
                distinct by hash of (language, fixture, params, text)"
        .into();
    let dir = util::scratch_dir("c12");

    // ---- task list ----------------------------------------------------------------------
    let mut tasks: Vec<Task> = vec![Task::SelfTest];
    let only_lang: Option<u8> = std::env::var("VH_C12_LANG").ok().and_then(|s| LANGS.iter().position(|l| *l == s).map(|x| x as u8));
    let no_random = std::env::var("VH_C12_NO_RANDOM").is_ok();
    let no_nest = std::env::var("VH_C12_NO_NEST").is_ok();
    let no_directed = std::env::var("VH_C12_NO_DIRECTED").is_ok();
    let (rand_total, batch) = tier.pick((5_000usize, 250usize), (200_000usize, 2_000usize));
    let rand_total: usize = std::env::var("VH_C12_RANDOM").ok().and_then(|s| s.parse().ok()).unwrap_or(rand_total);
    let langs: Vec<u8> = (0..5u8).filter(|l| only_lang.is_none_or(|o| o == *l)).collect();
    // long-running work first (better packing): explosive directed inputs each alone, then the
    // nesting ladders, then the ordinary batches
    let mut directed: Vec<Vec<Input>> = Vec::new();
    for &lang in &langs {
        if no_directed {
            continue;
        }
        let (slow, fast): (Vec<Input>, Vec<Input>) = cgen::directed(lang).into_iter().partition(|i| i.fam == "explosive");
        for s in slow {
            tasks.push(Task::Batch(vec![s]));
        }
        directed.push(fast);
    }
    if !no_nest {
        for &lang in &langs {
            for n in cgen::nests(lang) {
                tasks.push(Task::Nest(n));
            }
        }
    }
    for fast in &directed {
        for c in fast.chunks(400) {
            tasks.push(Task::Batch(c.to_vec()));
        }
    }
    if !no_random {
        let nb = rand_total.div_ceil(batch);
        for b in 0..nb {
            for &lang in &langs {
                tasks.push(Task::Random(lang, b as u64, batch.min(rand_total - b * batch)));
            }
        }
    }
    // ---- pool ---------------------------------------------------------------------------
    let acc = Mutex::new(Acc { dump: std::env::var("VH_C12_DUMP").ok().and_then(|p| std::fs::File::create(p).ok()).map(std::io::BufWriter::new), ..Acc::default() });
    let next = AtomicUsize::new(0);
    std::thread::scope(|sc| {
        for _ in 0..PARALLEL {
            sc.spawn(|| loop {
                let i = next.fetch_add(1, Ordering::SeqCst);
                if i >= tasks.len() {
                    break;
                }
                match &tasks[i] {
                    Task::Batch(v) => process_batch(&dir, &acc, v, seed),
                    Task::Random(lang, b, n) => {
                        let v = cgen::random_batch(*lang, seed, *b, *n);
                        process_batch(&dir, &acc, &v, seed);
                    }
                    Task::Nest(n) => process_nest(&dir, &acc, n, seed),
                    Task::SelfTest => process_selftest(&dir, &acc, seed),
                }
            });
        }
    });
    let _ = std::fs::remove_dir_all(&dir);

    // ---- report -------------------------------------------------------------------------
    let acc = acc.into_inner().unwrap();
    rep.evals(acc.evals);
    for h in &acc.nontrivial {
        rep.nontrivial(*h);
    }
    for (k, v) in &acc.counters {
        rep.count(k, *v);
    }
    rep.count("children_spawned", CHILDREN.load(Ordering::Relaxed) as u64);
    rep.max_samples = 40;
    for s in &acc.samples {
        rep.sample(s.clone());
    }
    let mut devs = serde_json::Map::new();
    for (sig, (n, _inp, detail)) in &acc.deviations {
        let mut d = detail.clone();
        d["occurrences"] = json!(n);
        devs.insert(sig.clone(), d.clone());
        rep.deviation(sig, d);
    }
    rep.extra.insert("signatures_observed".into(), serde_json::Value::Object(devs));
    rep.extra.insert("nesting".into(), json!(acc.nesting));
    rep.extra.insert("slowest_returning_input_ms".into(), json!(acc.max_ms.iter().map(|(k, v)| (k.clone(), json!({"ms": v.0, "input": v.1}))).collect::<BTreeMap<_, _>>()));
    rep.extra.insert("selftest_outcome_detection".into(), json!(acc.selftest));
    rep.extra.insert(
        "bounds".into(),
        json!({"per_call_s": BOUND_S, "timeout_confirmation_alone_s": CONFIRM_BOUND_S, "address_space_bytes": RLIMIT_AS_BYTES, "stack_bytes": STACK_BYTES, "children_in_parallel": PARALLEL}),
    );
    // A batch timeout / death that the culprit alone does not reproduce has been *judged by its
    // confirmation run* (the input returned, alone, within the bound): it is listed in the evidence
    // and does not change the verdict. Only when many sub-cases behave like that is the machine too
    // disturbed for the wall-clock proxy to mean anything, and the run is inconclusive.
    rep.extra.insert("batch_events_not_reproduced_alone".into(), json!(acc.inconclusive));
    let unreproduced: u64 = acc.counters.iter().filter(|(k, _)| k.starts_with("unreproduced.")).map(|(_, v)| *v).sum();
    if unreproduced > 12 {
        rep.inconclusive(&format!("{unreproduced} batch timeouts / deaths were not reproduced by the culprit alone (machine too disturbed); first: {}", acc.inconclusive.first().cloned().unwrap_or_default()));
    }
    rep.assumptions = vec![
        "'all strings' is sampled: fixed directed corpus + seeded random generation/mutation per language".into(),
        format!("'bounded time' is a wall-clock proxy: {BOUND_S} s per call, a timeout counts only if it reproduces alone within a {CONFIRM_BOUND_S} s bound"),
        "'exhausts memory' is observed as an allocation failure under RLIMIT_AS = 4 GiB in the child".into(),
        "calls run on a thread with an 8 MiB stack (the default main-thread stack of an embedding application)".into(),
        "dev profile (overflow checks on), the profile a plain `cargo build` of an embedding application gets".into(),
        "query strings are &str, hence valid UTF-8; invalid UTF-8 cannot be handed to the Rust entry points".into(),
    ];
    rep.finish()
}
