//! C16 — values compare, hash, order and serialise consistently.
//! Law checkers over enumerated pool pairs/triples + random values; round-trip monitors for
//! every serialisation the system applies; consequences through the real operators.

use crate::report::{Report, Tier};
use crate::rng::Rng;
use crate::vals::{self, bit_eq, class, show};
use grafeo_common::types::{HashableValue, OrderableValue, Value};
use serde_json::json;
use std::cmp::Ordering;
use std::collections::hash_map::DefaultHasher;
use std::hash::{Hash, Hasher};

fn h<T: Hash>(t: &T) -> u64 {
    let mut s = DefaultHasher::new();
    t.hash(&mut s);
    s.finish()
}

fn sig2(law: &str, a: &Value, b: &Value) -> String {
    let (mut x, mut y) = (class(a), class(b));
    if x > y {
        std::mem::swap(&mut x, &mut y);
    }
    format!("law:{law}|{x}|{y}")
}
fn sig3(law: &str, a: &Value, b: &Value, c: &Value) -> String {
    let mut v = [class(a), class(b), class(c)];
    v.sort_unstable();
    format!("law:{law}|{}|{}|{}", v[0], v[1], v[2])
}

fn hashable_laws(rep: &mut Report, vs: &[Value], rng: &mut Rng, triples: usize) {
    let hv: Vec<HashableValue> = vs.iter().cloned().map(HashableValue::new).collect();
    for i in 0..vs.len() {
        rep.eval();
        if hv[i] != hv[i] {
            rep.deviation(&sig2("hashable.reflexive", &vs[i], &vs[i]), json!({"a": show(&vs[i])}));
        }
        for j in 0..vs.len() {
            rep.eval();
            let e = hv[i] == hv[j];
            let e2 = hv[j] == hv[i];
            if e != e2 {
                rep.deviation(&sig2("hashable.symmetric", &vs[i], &vs[j]), json!({"a": show(&vs[i]), "b": show(&vs[j])}));
            }
            if e && h(&hv[i]) != h(&hv[j]) {
                rep.deviation(&sig2("hashable.eq_implies_hash", &vs[i], &vs[j]), json!({"a": show(&vs[i]), "b": show(&vs[j])}));
            }
            // equality must not merge bit-different values nor separate bit-identical ones
            // (the wrapper's documented contract: floats by bit pattern)
            if e != bit_eq(&vs[i], &vs[j]) {
                rep.deviation(&sig2("hashable.eq_is_bit_identity", &vs[i], &vs[j]), json!({"a": show(&vs[i]), "b": show(&vs[j]), "eq": e}));
            }
            if i != j && e {
                rep.nontrivial(crate::rng::hash_str(&format!("h{}{}", vals::key(&vs[i]), vals::key(&vs[j]))));
            }
        }
    }
    for _ in 0..triples {
        let (a, b, c) = (rng.below(vs.len()), rng.below(vs.len()), rng.below(vs.len()));
        rep.eval();
        if hv[a] == hv[b] && hv[b] == hv[c] && hv[a] != hv[c] {
            rep.deviation(&sig3("hashable.transitive", &vs[a], &vs[b], &vs[c]), json!({"a": show(&vs[a]), "b": show(&vs[b]), "c": show(&vs[c])}));
        }
    }
}

fn orderable_laws(rep: &mut Report, vs: &[Value], rng: &mut Rng, all_triples: bool, triples: usize) {
    let ov: Vec<(Value, OrderableValue)> =
        vs.iter().filter_map(|v| OrderableValue::try_from(v).map(|o| (v.clone(), o))).collect();
    let n = ov.len();
    rep.count("orderable_values", n as u64);
    for i in 0..n {
        for j in 0..n {
            rep.eval();
            let (a, b) = (&ov[i].1, &ov[j].1);
            let (va, vb) = (&ov[i].0, &ov[j].0);
            let d = || json!({"a": show(va), "b": show(vb)});
            let e = a == b;
            let c = a.cmp(b);
            if e != (b == a) {
                rep.deviation(&sig2("orderable.eq_symmetric", va, vb), d());
            }
            if c != b.cmp(a).reverse() {
                rep.deviation(&sig2("orderable.cmp_antisymmetric", va, vb), d());
            }
            if (c == Ordering::Equal) != e {
                rep.deviation(&sig2("orderable.cmp_equal_iff_eq", va, vb), d());
            }
            if e && h(a) != h(b) {
                rep.deviation(&sig2("orderable.eq_implies_hash", va, vb), d());
            }
            if a.partial_cmp(b) != Some(c) {
                rep.deviation(&sig2("orderable.partial_cmp_agrees", va, vb), d());
            }
            // round trip through Value
            if i == j && !bit_eq(&a.clone().into_value(), va) {
                rep.deviation(&sig2("orderable.into_value_roundtrip", va, va), d());
            }
            if i != j {
                rep.nontrivial(crate::rng::hash_str(&format!("o{}{}", vals::key(va), vals::key(vb))));
            }
        }
    }
    let mut tri = |rep: &mut Report, i: usize, j: usize, k: usize| {
        rep.eval();
        let (a, b, c) = (&ov[i].1, &ov[j].1, &ov[k].1);
        let d = || json!({"a": show(&ov[i].0), "b": show(&ov[j].0), "c": show(&ov[k].0)});
        if a == b && b == c && a != c {
            rep.deviation(&sig3("orderable.eq_transitive", &ov[i].0, &ov[j].0, &ov[k].0), d());
        }
        if a.cmp(b) != Ordering::Greater && b.cmp(c) != Ordering::Greater && a.cmp(c) == Ordering::Greater {
            rep.deviation(&sig3("orderable.cmp_transitive", &ov[i].0, &ov[j].0, &ov[k].0), d());
        }
    };
    if all_triples {
        for i in 0..n {
            for j in 0..n {
                for k in 0..n {
                    tri(rep, i, j, k);
                }
            }
        }
    } else {
        for _ in 0..triples {
            let (i, j, k) = (rng.below(n), rng.below(n), rng.below(n));
            tri(rep, i, j, k);
        }
    }
    // BTreeSet / sort consequences: sorting must produce a non-decreasing sequence by cmp
    let sorted = crate::util::catch(|| {
        let mut sorted: Vec<&(Value, OrderableValue)> = ov.iter().collect();
        sorted.sort_by(|x, y| x.1.cmp(&y.1));
        sorted
    });
    match sorted {
        Ok(sorted) => {
            for w in sorted.windows(2) {
                rep.eval();
                if w[0].1.cmp(&w[1].1) == Ordering::Greater {
                    rep.deviation(&sig2("orderable.sort_not_sorted", &w[0].0, &w[1].0), json!({"a": show(&w[0].0), "b": show(&w[1].0)}));
                }
            }
        }
        Err(e) => rep.deviation("law:orderable.std_sort_panics", json!({"panic": e.msg, "note": "slice::sort_by detected that OrderableValue::cmp is not a total order"})),
    }
}

fn roundtrips(rep: &mut Report, vs: &[Value]) {
    use grafeo_core::execution::spill::{deserialize_row, deserialize_value, serialize_row, serialize_value};
    for v in vs {
        rep.eval();
        // Value::serialize
        let bytes = v.serialize();
        match Value::deserialize(&bytes) {
            Ok(back) if bit_eq(&back, v) => {}
            Ok(back) => rep.deviation(&format!("roundtrip:value.serialize|{}", class(v)), json!({"in": show(v), "out": show(&back)})),
            Err(e) => rep.deviation(&format!("roundtrip:value.serialize|{}|err", class(v)), json!({"in": show(v), "err": e.to_string()})),
        }
        // spill value
        let mut buf = Vec::new();
        match serialize_value(v, &mut buf) {
            Ok(n) => {
                if n != buf.len() {
                    rep.deviation(&format!("roundtrip:spill.len|{}", class(v)), json!({"in": show(v), "reported": n, "written": buf.len()}));
                }
                match deserialize_value(&mut &buf[..]) {
                    Ok(back) if bit_eq(&back, v) => {}
                    Ok(back) => rep.deviation(&format!("roundtrip:spill.value|{}", class(v)), json!({"in": show(v), "out": show(&back)})),
                    Err(e) => rep.deviation(&format!("roundtrip:spill.value|{}|err", class(v)), json!({"in": show(v), "err": e.to_string()})),
                }
            }
            Err(e) => rep.deviation(&format!("roundtrip:spill.value|{}|sererr", class(v)), json!({"in": show(v), "err": e.to_string()})),
        }
    }
    // spill rows: windows of the pool as rows
    for w in vs.chunks(5) {
        rep.eval();
        let mut buf = Vec::new();
        if serialize_row(w, &mut buf).is_ok() {
            match deserialize_row(&mut &buf[..], w.len()) {
                Ok(back) if back.len() == w.len() && back.iter().zip(w).all(|(a, b)| bit_eq(a, b)) => {}
                Ok(back) => rep.deviation("roundtrip:spill.row", json!({"in": w.iter().map(show).collect::<Vec<_>>(), "out": back.iter().map(show).collect::<Vec<_>>()})),
                Err(e) => rep.deviation("roundtrip:spill.row|err", json!({"err": e.to_string()})),
            }
        }
    }
}

/// WAL and snapshot round trips through the real engine: every value is stored as a node
/// and as an edge property, then read back after close/reopen and after export/import.
fn engine_roundtrips(rep: &mut Report, vs: &[Value]) {
    use grafeo_engine::GrafeoDB;
    let dir = crate::util::scratch_dir("c16");
    let path = dir.join("db");
    let mut ids = Vec::new();
    {
        let db = GrafeoDB::open(&path).expect("open persistent db");
        let anchor = db.create_node(&["A"]);
        for v in vs {
            let n = db.create_node(&["V"]);
            db.set_node_property(n, "v", v.clone());
            let e = db.create_edge(anchor, n, "E");
            db.set_edge_property(e, "w", v.clone());
            ids.push((n, e));
        }
        // snapshot
        let snap = db.export_snapshot().expect("export");
        let snap2 = db.export_snapshot().expect("export");
        rep.eval();
        if snap != snap2 {
            rep.deviation("roundtrip:snapshot.nondeterministic", json!({}));
        }
        match GrafeoDB::import_snapshot(&snap) {
            Ok(copy) => check_db(rep, &copy, vs, &ids, "snapshot"),
            Err(e) => rep.deviation("roundtrip:snapshot|import_err", json!({"err": e.to_string()})),
        }
        check_db(rep, &db, vs, &ids, "live");
        db.close().expect("close");
    }
    match GrafeoDB::open(&path) {
        Ok(db) => check_db(rep, &db, vs, &ids, "wal"),
        Err(e) => rep.deviation("roundtrip:wal|open_err", json!({"err": e.to_string()})),
    }
    let _ = std::fs::remove_dir_all(&dir);
}

fn check_db(
    rep: &mut Report,
    db: &grafeo_engine::GrafeoDB,
    vs: &[Value],
    ids: &[(grafeo_common::types::NodeId, grafeo_common::types::EdgeId)],
    route: &str,
) {
    for (v, (n, e)) in vs.iter().zip(ids) {
        rep.eval();
        let got = db.get_node(*n).and_then(|node| node.properties.get(&"v".into()).cloned());
        match got {
            Some(g) if bit_eq(&g, v) => {}
            other => rep.deviation(
                &format!("roundtrip:{route}.node|{}", class(v)),
                json!({"in": show(v), "out": other.as_ref().map(show)}),
            ),
        }
        let got = db.get_edge(*e).and_then(|edge| edge.properties.get(&"w".into()).cloned());
        match got {
            Some(g) if bit_eq(&g, v) => {}
            other => rep.deviation(
                &format!("roundtrip:{route}.edge|{}", class(v)),
                json!({"in": show(v), "out": other.as_ref().map(show)}),
            ),
        }
    }
}

/// Coarse equivalence: the most any reasonable engine equality may merge
/// (numeric equality across Int/Float, all NaNs one class, +0 = -0).
fn coarse_key(v: &Value) -> String {
    match v {
        Value::Int64(i) => format!("num{:?}", *i as f64),
        Value::Float64(f) if f.is_nan() => "numNaN".into(),
        Value::Float64(f) if *f == 0.0 => "num0.0".into(),
        Value::Float64(f) => format!("num{f:?}"),
        Value::List(l) => format!("L[{}]", l.iter().map(coarse_key).collect::<Vec<_>>().join(",")),
        Value::Map(m) => format!("M{{{}}}", m.iter().map(|(k, v)| format!("{:?}:{}", k.as_str(), coarse_key(v))).collect::<Vec<_>>().join(",")),
        Value::Vector(x) => format!(
            "V[{}]",
            x.iter().map(|f| if f.is_nan() { "NaN".to_string() } else if *f == 0.0 { "0".into() } else { format!("{f:?}") }).collect::<Vec<_>>().join(",")
        ),
        other => vals::key(other),
    }
}

fn err_sig(base: &str, e: &str) -> String {
    if let Some(rest) = e.strip_prefix("PANIC ") {
        format!("{base}.panic|{}", rest.split(' ').next().unwrap_or(""))
    } else {
        format!("{base}.query_error")
    }
}

/// Execute a GQL query, turning a panic into an error string "PANIC <site>".
fn exec(s: &grafeo_engine::Session, q: &str) -> Result<grafeo_engine::database::QueryResult, String> {
    match crate::util::catch(|| s.execute(q)) {
        Ok(Ok(r)) => Ok(r),
        Ok(Err(e)) => Err(e.to_string()),
        Err(p) => Err(format!("PANIC {} ({}): {}", p.site, p.at, p.msg)),
    }
}

/// DISTINCT / GROUP BY / ORDER BY over a column holding the values (each value twice).
fn operator_consequences(rep: &mut Report, vs: &[Value], tag: &str) {
    use grafeo_engine::GrafeoDB;
    use std::collections::{BTreeMap, BTreeSet};
    let db = GrafeoDB::new_in_memory();
    let mut present: Vec<&Value> = Vec::new();
    for v in vs {
        if matches!(v, Value::Null) {
            continue;
        }
        for _ in 0..2 {
            let n = db.create_node(&["V"]);
            db.set_node_property(n, "v", v.clone());
        }
        present.push(v);
    }
    if present.is_empty() {
        return;
    }
    let bit_classes: BTreeSet<String> = present.iter().map(|v| vals::key(v)).collect();
    let coarse_classes: BTreeSet<String> = present.iter().map(|v| coarse_key(v)).collect();
    let class_of_key: BTreeMap<String, &'static str> = present.iter().map(|v| (vals::key(v), class(v))).collect();
    let s = db.session();
    // plain
    let plain = match exec(&s, "MATCH (n:V) RETURN n.v") {
        Ok(r) => r,
        Err(e) => {
            rep.deviation(&format!("ops:{tag}.plain_query_error"), json!({"err": e}));
            return;
        }
    };
    rep.eval();
    let mut plain_ms: BTreeMap<String, usize> = BTreeMap::new();
    for row in plain.iter() {
        *plain_ms.entry(vals::key(&row[0])).or_default() += 1;
    }
    let mut expect_ms: BTreeMap<String, usize> = BTreeMap::new();
    for v in &present {
        *expect_ms.entry(vals::key(v)).or_default() += 2;
    }
    if plain_ms != expect_ms {
        rep.deviation(&format!("ops:{tag}.scan_multiset"), json!({"expected_rows": present.len()*2, "got_rows": plain.row_count()}));
    }
    // DISTINCT, both spellings
    for (name, q) in [
        ("with_distinct", "MATCH (n:V) WITH DISTINCT n.v AS x RETURN x"),
        ("return_distinct", "MATCH (n:V) RETURN DISTINCT n.v"),
    ] {
        rep.eval();
        match exec(&s, q) {
            Ok(r) => {
                let keys: Vec<String> = r.iter().map(|row| vals::key(&row[0])).collect();
                let set: BTreeSet<&String> = keys.iter().collect();
                if set.len() != keys.len() {
                    rep.deviation(&format!("ops:{name}.repeats_bit_identical_value"), json!({"query": q, "rows": keys.len(), "distinct": set.len()}));
                }
                for k in &keys {
                    if !bit_classes.contains(k) {
                        rep.deviation(&format!("ops:{name}.invents_value"), json!({"query": q, "value": k}));
                    }
                }
                // every coarse class must be represented: DISTINCT must not merge different values
                let got_coarse: BTreeSet<String> = r.iter().map(|row| coarse_key(&row[0])).collect();
                for v in &present {
                    if !got_coarse.contains(&coarse_key(v)) {
                        rep.deviation(&format!("ops:{name}.value_lost|{}", class(v)), json!({"query": q, "value": show(v)}));
                    }
                }
            }
            Err(e) => rep.deviation(&err_sig(&format!("ops:{name}"), &e), json!({"query": q, "err": e})),
        }
    }
    // GROUP BY
    rep.eval();
    let q = "MATCH (n:V) RETURN n.v, count(n)";
    match exec(&s, q) {
        Ok(r) => {
            let mut total = 0i64;
            let mut groups = 0usize;
            let mut got_coarse: BTreeSet<String> = BTreeSet::new();
            let mut got_bits: BTreeSet<String> = BTreeSet::new();
            for row in r.iter() {
                groups += 1;
                got_coarse.insert(coarse_key(&row[0]));
                got_bits.insert(vals::key(&row[0]));
                if let Value::Int64(c) = row[1] {
                    total += c;
                }
            }
            if total != (present.len() * 2) as i64 {
                rep.deviation("ops:group.count_sum", json!({"query": q, "sum": total, "expected": present.len()*2}));
            }
            if groups > bit_classes.len() {
                rep.deviation("ops:group.separates_bit_identical_values", json!({"query": q, "groups": groups, "max": bit_classes.len()}));
            }
            // a group key that is no stored value: a value did not survive grouping
            let mut lost: BTreeSet<&'static str> = BTreeSet::new();
            for v in &present {
                if !got_coarse.contains(&coarse_key(v)) {
                    lost.insert(class(v));
                }
            }
            for c in lost {
                rep.deviation(&format!("ops:group.value_lost|{c}"), json!({"query": q}));
            }
            let invented: Vec<&String> = got_bits.iter().filter(|k| !bit_classes.contains(*k)).collect();
            if !invented.is_empty() {
                // attribute to the classes whose values are missing bit-exactly
                let mut cls: BTreeSet<&'static str> = BTreeSet::new();
                for (k, c) in &class_of_key {
                    if !got_bits.contains(k) {
                        cls.insert(c);
                    }
                }
                for c in cls {
                    rep.deviation(&format!("ops:group.key_not_bit_identical|{c}"), json!({"query": q, "invented": invented.iter().take(3).collect::<Vec<_>>()}));
                }
            }
        }
        Err(e) => rep.deviation(&err_sig("ops:group", &e), json!({"query": q, "err": e})),
    }
    // ORDER BY keeps the multiset and keeps bit-identical values together
    for dir in ["ASC", "DESC"] {
        rep.eval();
        let q = format!("MATCH (n:V) RETURN n.v ORDER BY n.v {dir}");
        match exec(&s, &q) {
            Ok(r) => {
                let mut ms: BTreeMap<String, usize> = BTreeMap::new();
                let seq: Vec<String> = r.iter().map(|row| vals::key(&row[0])).collect();
                // runs are judged under the coarsest sensible equality (+0 = -0, NaN = NaN):
                // a sort may legitimately treat numerically equal values as one run
                let runs: Vec<String> = r.iter().map(|row| coarse_key(&row[0])).collect();
                for k in &seq {
                    *ms.entry(k.clone()).or_default() += 1;
                }
                if ms != expect_ms {
                    rep.deviation("ops:order.changes_multiset", json!({"query": q, "rows": r.row_count()}));
                }
                let homogeneous = present.iter().all(|v| std::mem::discriminant(*v) == std::mem::discriminant(present[0]));
                if homogeneous {
                    // runs: a bit-identical value must not reappear after a different one
                    let mut closed: BTreeSet<&String> = BTreeSet::new();
                    let mut prev: Option<&String> = None;
                    for k in &runs {
                        if prev != Some(k) {
                            if closed.contains(k) {
                                rep.deviation(&format!("ops:order.separates_equal_values|{}", class(present[0])), json!({"query": q}));
                                break;
                            }
                            if let Some(p) = prev {
                                closed.insert(p);
                            }
                            prev = Some(k);
                        }
                    }
                    let ints: Vec<i64> = r.iter().filter_map(|row| if let Value::Int64(i) = row[0] { Some(i) } else { None }).collect();
                    if !ints.windows(2).all(|w| if dir == "ASC" { w[0] <= w[1] } else { w[0] >= w[1] }) {
                        rep.deviation("ops:order.ints_unsorted", json!({"query": q, "ints": ints}));
                    }
                    let strs: Vec<String> = r.iter().filter_map(|row| if let Value::String(s) = &row[0] { Some(s.to_string()) } else { None }).collect();
                    if !strs.windows(2).all(|w| if dir == "ASC" { w[0] <= w[1] } else { w[0] >= w[1] }) {
                        rep.deviation("ops:order.strings_unsorted", json!({"query": q, "strs": strs}));
                    }
                    let fl: Vec<f64> = r.iter().filter_map(|row| if let Value::Float64(f) = row[0] { Some(f) } else { None }).filter(|f| !f.is_nan()).collect();
                    if !fl.windows(2).all(|w| if dir == "ASC" { w[0] <= w[1] } else { w[0] >= w[1] }) {
                        rep.deviation("ops:order.floats_unsorted", json!({"query": q, "floats": fl}));
                    }
                }
            }
            Err(e) => rep.deviation(&err_sig("ops:order", &e), json!({"query": q, "err": e})),
        }
    }
    let _ = tag;
}

/// Index consequences: HashIndex over HashableValue and BTreeIndex over OrderableValue
/// behave as maps over the bit-identity classes.
fn index_consequences(rep: &mut Report, vs: &[Value]) {
    use grafeo_core::index::btree::BTreeIndex;
    use grafeo_core::index::hash::HashIndex;
    use std::collections::BTreeMap;
    let hi: HashIndex<HashableValue, usize> = HashIndex::new();
    let mut model: BTreeMap<String, usize> = BTreeMap::new();
    for (i, v) in vs.iter().enumerate() {
        hi.insert(HashableValue::new(v.clone()), i);
        model.insert(vals::key(v), i);
    }
    rep.eval();
    if hi.len() != model.len() {
        rep.deviation("index:hash.len", json!({"len": hi.len(), "expected": model.len()}));
    }
    for v in vs {
        rep.eval();
        let got = hi.get(&HashableValue::new(v.clone()));
        if got != model.get(&vals::key(v)).copied() {
            rep.deviation(&format!("index:hash.get|{}", class(v)), json!({"v": show(v), "got": got}));
        }
    }
    // BTree over one-type orderables (where the order is a genuine total order)
    let bi: BTreeIndex<OrderableValue, usize> = BTreeIndex::new();
    let mut m2: BTreeMap<i64, usize> = BTreeMap::new();
    for (i, v) in vs.iter().enumerate() {
        if let Value::Int64(x) = v {
            bi.insert(OrderableValue::try_from(v).unwrap(), i);
            m2.insert(*x, i);
        }
    }
    rep.eval();
    if bi.len() != m2.len() {
        rep.deviation("index:btree.len", json!({"len": bi.len(), "expected": m2.len()}));
    }
    let lo = OrderableValue::Int64(-1);
    let hi_ = OrderableValue::Int64(1 << 53);
    let got: Vec<usize> = bi.range(lo..=hi_).into_iter().map(|(_, v)| v).collect();
    let exp: Vec<usize> = m2.range(-1..=(1i64 << 53)).map(|(_, v)| *v).collect();
    if got != exp {
        rep.deviation("index:btree.range", json!({"got": got, "expected": exp}));
    }
}

pub fn run(tier: Tier, seed: u64) -> ! {
    let mut rep = Report::new("C16", tier, seed, "exploration");
    rep.rule = "laws (reflexive/symmetric/transitive eq, eq=>hash, total order, cmp==Equal<=>eq) over ALL ordered pairs of a curated pool (NaN classes, +-0, +-inf, 2^53+-1 as Int and Float, i64 bounds, strings, bytes, timestamps, vectors, nested containers) plus random values; all triples of the orderable subset (thorough) or sampled (quick); every serialisation round trip (Value::serialize, spill value/row, WAL via close/reopen, snapshot export/import) compared bit-for-bit; DISTINCT/GROUP BY/ORDER BY and HashIndex/BTreeIndex over the pool. non-trivial = ordered pair of two different pool values (distinct by bit-exact key)".into();
    let mut rng = Rng::new(seed, "C16", 0);
    let mut vs = vals::pool();
    let n_random = tier.pick(150, 1500);
    for _ in 0..n_random {
        vs.push(vals::random(&mut rng, 3));
    }
    rep.count("pool_values", vals::pool().len() as u64);
    rep.count("random_values", n_random as u64);
    for v in vs.iter().take(4) {
        rep.sample(json!({"value": show(v), "class": class(v)}));
    }
    rep.sample(json!({"pair": [show(&vs[5]), show(&vs[30])], "laws": ["symmetric", "eq=>hash", "cmp antisymmetric", "cmp==Equal<=>eq"]}));

    // laws: pool exhaustively; random values among themselves and against the pool
    let pool = vals::pool();
    hashable_laws(&mut rep, &pool, &mut rng, tier.pick(60_000, 400_000));
    orderable_laws(&mut rep, &pool, &mut rng, tier == Tier::Thorough, 300_000);
    hashable_laws(&mut rep, &vs, &mut rng, tier.pick(60_000, 400_000));
    orderable_laws(&mut rep, &vs, &mut rng, false, tier.pick(600_000, 4_000_000));

    roundtrips(&mut rep, &vs);
    engine_roundtrips(&mut rep, &vs);
    operator_consequences(&mut rep, &pool, "pool");
    // operator consequences on small random subsets (different hash-table shapes)
    let subsets = tier.pick(20, 300);
    for k in 0..subsets {
        let mut r = Rng::new(seed, "C16.ops", k as u64);
        let n = 2 + r.below(12);
        let sub: Vec<Value> = (0..n).map(|_| vs[r.below(vs.len())].clone()).collect();
        operator_consequences(&mut rep, &sub, "subset");
    }
    for pick in [
        (|v: &Value| matches!(v, Value::Int64(_))) as fn(&Value) -> bool,
        |v: &Value| matches!(v, Value::Float64(_)),
        |v: &Value| matches!(v, Value::String(_)),
        |v: &Value| matches!(v, Value::Bool(_)),
        |v: &Value| matches!(v, Value::Timestamp(_)),
    ] {
        let sub: Vec<Value> = vs.iter().filter(|v| pick(v)).cloned().collect();
        operator_consequences(&mut rep, &sub, "homogeneous");
    }
    index_consequences(&mut rep, &vs);
    rep.assumptions = vec![
        "JSON serialisation for bindings is exercised only through the C driver (thorough overlay), not here".into(),
        "DISTINCT/GROUP BY are judged by a sandwich: never more rows than bit-distinct values, never fewer than classes of the coarsest sensible equality (numeric Int=Float, NaN=NaN, +0=-0)".into(),
    ];
    rep.finish()
}
