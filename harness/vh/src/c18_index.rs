//! C18 (a) HNSW history monitor, (d) QuantizedHnswIndex histories, (e) batch == one-by-one.

use super::refs::*;
use crate::rng::{Rng, fnv};
use crate::util::catch;
use grafeo_common::types::NodeId;
use grafeo_core::index::vector::{DistanceMetric as M, HnswConfig, HnswIndex, QuantizationType, QuantizedHnswIndex};
use serde_json::{Value as J, json};
use std::collections::{HashMap, HashSet};
use std::sync::Arc;

pub const METRICS: [M; 4] = [M::Cosine, M::Euclidean, M::DotProduct, M::Manhattan];
pub const HDIMS: &[usize] = &[1, 2, 3, 7, 8, 9, 15, 16, 17, 31, 33, 128];

pub type Hits = Vec<(NodeId, f32)>;

#[derive(Clone, Debug)]
pub enum Op {
    Insert { id: u64, v: Vec<f32> },
    Remove { id: u64 },
    Search { q: Vec<f32>, k: usize, ef: Option<usize> },
    Batch { qs: Vec<Vec<f32>>, k: usize, ef: Option<usize> },
}

#[derive(Clone, Debug)]
pub struct Cfg {
    pub dim: usize,
    pub metric: M,
    pub m: usize,
    pub efc: usize,
    pub ef: usize,
    pub alpha: f32,
    pub index_seed: u64,
    /// None: plain HnswIndex; Some: QuantizedHnswIndex
    pub quant: Option<QCfg>,
}

#[derive(Clone, Debug)]
pub struct QCfg {
    pub qt: QuantizationType,
    pub rescore: bool,
    pub factor: usize,
    pub threshold: usize,
}

impl Cfg {
    fn hnsw_config(&self) -> HnswConfig {
        HnswConfig::new(self.dim, self.metric).with_m(self.m).with_ef_construction(self.efc).with_ef(self.ef).with_alpha(self.alpha)
    }
    fn m_max(&self) -> usize {
        self.m * 2
    }
    /// coarse component name used in signatures: the quantisation type does not change
    /// which clause of the property a result list has to satisfy
    pub fn sig_comp(&self) -> &'static str {
        if self.quant.is_some() { "qhnsw" } else { "hnsw" }
    }
    pub fn comp(&self) -> String {
        match &self.quant {
            None => "hnsw".into(),
            Some(q) => format!("qhnsw[{}{}]", q.qt.name(), if q.rescore { "" } else { ",no_rescore" }),
        }
    }
    pub fn show(&self) -> J {
        json!({"dim": self.dim, "metric": self.metric.name(), "m": self.m, "m_max": self.m_max(), "ef_construction": self.efc, "ef": self.ef,
               "alpha": self.alpha, "index_seed": self.index_seed,
               "quantization": self.quant.as_ref().map(|q| json!({"type": format!("{:?}", q.qt), "rescore": q.rescore, "rescore_factor": q.factor, "training_threshold": q.threshold}))})
    }
}

enum Idx {
    H(HnswIndex),
    Q(QuantizedHnswIndex),
}

impl Idx {
    fn build(c: &Cfg) -> Idx {
        match &c.quant {
            None => Idx::H(HnswIndex::with_seed(c.hnsw_config(), c.index_seed)),
            Some(q) => {
                let mut x = QuantizedHnswIndex::with_seed(c.hnsw_config(), q.qt, c.index_seed).with_rescore_factor(q.factor).with_training_threshold(q.threshold);
                if !q.rescore {
                    x = x.without_rescore();
                }
                Idx::Q(x)
            }
        }
    }
    fn insert(&self, id: u64, v: &[f32]) {
        match self {
            Idx::H(x) => x.insert(NodeId::new(id), v),
            Idx::Q(x) => x.insert(NodeId::new(id), v),
        }
    }
    fn remove(&self, id: u64) -> bool {
        match self {
            Idx::H(x) => x.remove(NodeId::new(id)),
            Idx::Q(x) => x.remove(NodeId::new(id)),
        }
    }
    fn search(&self, q: &[f32], k: usize, ef: Option<usize>) -> Hits {
        match (self, ef) {
            (Idx::H(x), None) => x.search(q, k),
            (Idx::H(x), Some(e)) => x.search_with_ef(q, k, e),
            (Idx::Q(x), None) => x.search(q, k),
            (Idx::Q(x), Some(e)) => x.search_with_ef(q, k, e),
        }
    }
    /// every batch entry point that applies, with its name
    fn batch(&self, qs: &[Vec<f32>], k: usize, ef: Option<usize>) -> Vec<(&'static str, Vec<Hits>)> {
        match (self, ef) {
            (Idx::H(x), None) => {
                let sl: Vec<&[f32]> = qs.iter().map(|v| v.as_slice()).collect();
                vec![("batch_search", x.batch_search(qs, k)), ("batch_search_slices", x.batch_search_slices(&sl, k))]
            }
            (Idx::H(x), Some(e)) => vec![("batch_search_with_ef", x.batch_search_with_ef(qs, k, e))],
            (Idx::Q(x), _) => vec![("batch_search", x.batch_search(qs, k))],
        }
    }
    fn len(&self) -> usize {
        match self {
            Idx::H(x) => x.len(),
            Idx::Q(x) => x.len(),
        }
    }
    fn contains(&self, id: u64) -> bool {
        match self {
            Idx::H(x) => x.contains(NodeId::new(id)),
            Idx::Q(x) => x.contains(NodeId::new(id)),
        }
    }
    fn get(&self, id: u64) -> Option<Arc<[f32]>> {
        match self {
            Idx::H(x) => x.get(NodeId::new(id)),
            Idx::Q(x) => x.get(NodeId::new(id)),
        }
    }
}

/// How the component under test is documented to score its results.
#[derive(Clone, Copy, PartialEq, Debug)]
pub enum DistMode {
    /// the true distance under the metric (plain and rescoring indexes, engine)
    True,
    /// binary quantisation without rescoring returns its hamming estimate: no bound is
    /// documented, only sanity (not NaN, >= 0) is demanded
    SanityOnly,
}

pub struct Model {
    pub present: HashMap<u64, Vec<f32>>,
    pub removed: HashSet<u64>,
    pub had_remove: bool,
    pub had_reinsert: bool,
}

impl Model {
    pub fn new() -> Self {
        Model { present: HashMap::new(), removed: HashSet::new(), had_remove: false, had_reinsert: false }
    }
    pub fn hist_class(&self) -> &'static str {
        match (self.had_reinsert, self.had_remove) {
            (false, false) => "insert_only",
            (true, false) => "insert+reinsert",
            (false, true) => "insert+remove",
            (true, true) => "insert+reinsert+remove",
        }
    }
}

/// Cosine class of a (query, stored) pair as far as the known defects are concerned.
fn cosine_class(q: &[f32], v: &[f32], r: &Refv, stored_normalised: bool) -> &'static str {
    if is_tiny_norm(q) || is_tiny_norm(v) {
        return "norm<=f32eps";
    }
    if stored_normalised {
        // the stored copy has unit length, so the kernel sees |q| * 1
        if norm64(q) < 1.0 { "normprod<1" } else { "normprod>=1" }
    } else {
        r.class
    }
}

pub struct Judge<'a> {
    /// component name for counters (detailed) and for signatures (coarse)
    pub comp: &'a str,
    pub sig: &'a str,
    pub metric: M,
    pub mode: DistMode,
    /// cosine only: does the component hold unit-length copies of the vectors?
    pub stored_normalised: bool,
    pub model: &'a Model,
    /// the "returns k" clause is demanded only when this is true (see rule in c18.rs)
    pub justified: bool,
    /// beam width actually used (max(ef,k)); exactness is demanded when justified and >= len
    pub ef_search: usize,
    /// false for components that pick their k by an approximate score by design
    pub exact_ok: bool,
}

/// Judge one result list. `detail` builds the witness lazily.
pub fn judge(acc: &mut Acc, j: &Judge, q: &[f32], k: usize, res: &Hits, detail: &dyn Fn(J) -> J) {
    let comp = j.comp;
    let sig = j.sig;
    let mname = j.metric.name();
    let len = j.model.present.len();
    acc.eval();
    acc.count(&format!("{comp}.searches_judged"), 1);
    let show_res = || json!(res.iter().map(|(i, d)| json!([i.as_u64(), format!("{d:e}")])).collect::<Vec<_>>());
    if res.len() > k {
        acc.dev(&format!("{sig}:search.more_than_k"), || detail(json!({"k": k, "result": show_res()})));
    }
    let mut seen = HashSet::new();
    let fun = metric_fun(j.metric);
    let mut all_demanded = true;
    let mut case_class = if j.metric == M::Cosine { "normprod>=1" } else { "finite" };
    for (id, d) in res {
        let id = id.as_u64();
        if !seen.insert(id) {
            acc.dev(&format!("{sig}:search.repeated_id"), || detail(json!({"id": id, "result": show_res()})));
        }
        let Some(v) = j.model.present.get(&id) else {
            let why = if j.model.removed.contains(&id) { "removed" } else { "never_inserted" };
            acc.dev(&format!("{sig}:search.id_not_present|{why}"), || detail(json!({"id": id, "result": show_res()})));
            continue;
        };
        match j.mode {
            DistMode::SanityOnly => {
                acc.count(&format!("{comp}.distance_sanity_only"), 1);
                if d.is_nan() || *d < 0.0 {
                    acc.dev(&format!("{sig}:search.estimate_not_a_distance"), || detail(json!({"id": id, "got": format!("{d:e}")})));
                }
            }
            DistMode::True => {
                let r = reference(fun, q, v);
                if r.demanded {
                    acc.count(&format!("{comp}.distances_compared.{mname}"), 1);
                    if !within(*d, &r) {
                        let class = if j.metric == M::Cosine { cosine_class(q, v, &r, j.stored_normalised) } else { r.class };
                        acc.dev(&format!("{sig}:search.distance|{mname}|{class}"), || {
                            detail(json!({"id": id, "got": format!("{d:e}"), "definition_f64": r.val, "bound": r.tol, "stored_vector": show_vec(v), "query_norm": norm64(q), "vector_norm": norm64(v)}))
                        });
                    }
                } else {
                    acc.count(&format!("{comp}.distance_no_panic_only.{}", r.class), 1);
                }
            }
        }
    }
    // order: the reported numbers themselves must be non-decreasing (NaN pairs are not judged)
    for w in res.windows(2) {
        if w[0].1 > w[1].1 {
            acc.dev(&format!("{sig}:search.not_sorted|{mname}"), || detail(json!({"result": show_res()})));
            break;
        }
    }
    // "returns k whenever >= k reachable"
    let want = k.min(len);
    if j.justified {
        acc.count(&format!("{comp}.length_clause_demanded"), 1);
        if res.len() != want {
            acc.dev(&format!("{sig}:search.fewer_than_k|hist=insert_only"), || detail(json!({"k": k, "len": len, "returned": res.len(), "result": show_res()})));
        }
    } else {
        acc.count(&format!("{comp}.length_clause_skipped.{}", j.model.hist_class()), 1);
        if res.len() < want {
            acc.count(&format!("{comp}.short_result_where_not_demanded.{}", j.model.hist_class()), 1);
        }
    }
    // exactness where the beam provably visits everything
    if j.justified && j.exact_ok && j.ef_search >= len && j.mode == DistMode::True && res.len() == want {
        let mut truth: Vec<f64> = Vec::with_capacity(len);
        let mut tmax = 0.0f64;
        for v in j.model.present.values() {
            let r = reference(fun, q, v);
            if !r.demanded {
                all_demanded = false;
                break;
            }
            if j.metric == M::Cosine {
                let c = cosine_class(q, v, &r, j.stored_normalised);
                if c == "norm<=f32eps" || (c == "normprod<1" && case_class != "norm<=f32eps") {
                    case_class = c;
                }
            }
            tmax = tmax.max(r.tol);
            truth.push(r.val);
        }
        if all_demanded {
            acc.count(&format!("{comp}.exactness_demanded"), 1);
            truth.sort_by(|a, b| a.partial_cmp(b).unwrap());
            for (i, (_, d)) in res.iter().enumerate() {
                if !((f64::from(*d) - truth[i]).abs() <= tmax) {
                    acc.dev(&format!("{sig}:search.not_k_nearest|{mname}|{case_class}"), || {
                        detail(json!({"rank": i, "got": format!("{d:e}"), "true_ith_smallest": truth[i], "bound": tmax, "result": show_res()}))
                    });
                    break;
                }
            }
        }
    }
}

fn same_hits(a: &Hits, b: &Hits) -> bool {
    a.len() == b.len() && a.iter().zip(b).all(|(x, y)| x.0 == y.0 && x.1.to_bits() == y.1.to_bits())
}

fn show_ops(ops: &[Op]) -> J {
    let one = |o: &Op| match o {
        Op::Insert { id, v } => json!({"insert": id, "v": show_vec(v)}),
        Op::Remove { id } => json!({"remove": id}),
        Op::Search { q, k, ef } => json!({"search": show_vec(q), "k": k, "ef": ef}),
        Op::Batch { qs, k, ef } => json!({"batch": qs.len(), "k": k, "ef": ef}),
    };
    if ops.len() <= 60 {
        json!(ops.iter().map(one).collect::<Vec<_>>())
    } else {
        json!({"ops": ops.len(), "last_20": ops[ops.len() - 20..].iter().map(one).collect::<Vec<_>>()})
    }
}

/// Execute a history against a fresh index, judging after every operation.
pub fn run_history(acc: &mut Acc, cfg: &Cfg, ops: &[Op], origin: &J) {
    let comp = cfg.comp();
    let sig = cfg.sig_comp();
    let idx = match catch(|| Idx::build(cfg)) {
        Ok(i) => i,
        Err(p) => {
            acc.dev(&format!("{sig}:new.panic@{}", p.site), || json!({"at": p.at, "msg": p.msg, "config": cfg.show()}));
            return;
        }
    };
    let mut model = Model::new();
    let mode = match &cfg.quant {
        Some(q) if q.qt == QuantizationType::Binary && !q.rescore => DistMode::SanityOnly,
        _ => DistMode::True,
    };
    for (step, op) in ops.iter().enumerate() {
        let detail = |extra: J| json!({"origin": origin, "config": cfg.show(), "failed_at_step": step, "history": show_ops(&ops[..=step]), "observed": extra});
        match op {
            Op::Insert { id, v } => {
                acc.count(&format!("{comp}.op.{}", if model.present.contains_key(id) { "reinsert" } else { "insert" }), 1);
                if let Err(p) = catch(|| idx.insert(*id, v)) {
                    acc.dev(&format!("{sig}:insert.panic@{}", p.site), || detail(json!({"at": p.at, "msg": p.msg})));
                    return;
                }
                if model.present.insert(*id, v.clone()).is_some() {
                    model.had_reinsert = true;
                }
                model.removed.remove(id);
            }
            Op::Remove { id } => {
                acc.count(&format!("{comp}.op.remove"), 1);
                let was = model.present.remove(id).is_some();
                match catch(|| idx.remove(*id)) {
                    Err(p) => {
                        acc.dev(&format!("{sig}:remove.panic@{}", p.site), || detail(json!({"at": p.at, "msg": p.msg})));
                        return;
                    }
                    Ok(r) => {
                        if r != was {
                            acc.dev(&format!("{sig}:remove.return_value"), || detail(json!({"returned": r, "was_present": was})));
                        }
                    }
                }
                if was {
                    model.removed.insert(*id);
                    model.had_remove = true;
                }
            }
            Op::Search { q, k, ef } => {
                acc.count(&format!("{comp}.op.search"), 1);
                let res = match catch(|| idx.search(q, *k, *ef)) {
                    Err(p) => {
                        acc.dev(&format!("{sig}:search.panic@{}", p.site), || detail(json!({"at": p.at, "msg": p.msg})));
                        return;
                    }
                    Ok(r) => r,
                };
                let len = model.present.len();
                let justified = !model.had_remove && !model.had_reinsert && len <= cfg.m_max() + 1;
                let j = Judge {
                    comp: &comp,
                    sig,
                    metric: cfg.metric,
                    mode,
                    stored_normalised: cfg.metric == M::Cosine,
                    model: &model,
                    justified,
                    ef_search: ef.unwrap_or(cfg.ef).max(*k),
                    // product quantisation with rescoring keeps the k best by PQ estimate
                    exact_ok: !matches!(&cfg.quant, Some(q) if matches!(q.qt, QuantizationType::Product { .. }) && q.rescore),
                };
                judge(acc, &j, q, *k, &res, &detail);
            }
            Op::Batch { qs, k, ef } => {
                acc.count(&format!("{comp}.op.batch"), 1);
                acc.eval();
                let r = catch(|| {
                    let single: Vec<Hits> = qs.iter().map(|q| idx.search(q, *k, if matches!(idx, Idx::Q(_)) { None } else { *ef })).collect();
                    (single, idx.batch(qs, *k, *ef))
                });
                match r {
                    Err(p) => {
                        acc.dev(&format!("{sig}:batch.panic@{}", p.site), || detail(json!({"at": p.at, "msg": p.msg})));
                        return;
                    }
                    Ok((single, batches)) => {
                        for (name, b) in batches {
                            acc.count(&format!("{comp}.batch_queries_compared"), qs.len() as u64);
                            if b.len() != single.len() || b.iter().zip(&single).any(|(x, y)| !same_hits(x, y)) {
                                acc.dev(&format!("{sig}:{name}.differs_from_one_by_one"), || {
                                    let i = b.iter().zip(&single).position(|(x, y)| !same_hits(x, y));
                                    detail(json!({"first_differing_query": i, "batch_len": b.len(), "single_len": single.len()}))
                                });
                            }
                        }
                    }
                }
            }
        }
        // bookkeeping of the index agrees with the history (cheap, after every op)
        let (l, ok) = (idx.len(), model.present.len());
        if l != ok {
            acc.dev(&format!("{sig}:len_mismatch|hist={}", model.hist_class()), || detail(json!({"len()": l, "expected": ok})));
        }
        if let Op::Insert { id, v } = op {
            if !idx.contains(*id) {
                acc.dev(&format!("{sig}:contains_false_after_insert"), || detail(json!({"id": id})));
            }
            if cfg.metric != M::Cosine {
                let g = idx.get(*id);
                if g.as_deref().map(|x| x.iter().map(|f| f.to_bits()).collect::<Vec<_>>()) != Some(v.iter().map(|f| f.to_bits()).collect::<Vec<_>>()) {
                    acc.dev(&format!("{sig}:get_differs_from_inserted"), || detail(json!({"id": id})));
                }
            }
        }
        if let Op::Remove { id } = op {
            if idx.contains(*id) || idx.get(*id).is_some() {
                acc.dev(&format!("{sig}:contains_true_after_remove"), || detail(json!({"id": id})));
            }
        }
    }
}

// ---------------------------------------------------------------------------------------
// generation
// ---------------------------------------------------------------------------------------

fn pick_k(r: &mut Rng, len: usize) -> usize {
    *r.pick(&[0usize, 1, 2, len.saturating_sub(1), len, len + 5])
}

/// Vector kinds of a history by flavour: most histories are "clean" so that every clause
/// is demanded; the others carry zero / duplicate / extreme vectors.
fn kinds_for(flavour: usize) -> &'static [VKind] {
    match flavour {
        0 => &[VKind::BigNorm],
        1 => &[VKind::Unit, VKind::Grid, VKind::Zero, VKind::Sparse, VKind::Scaled],
        2 => &[VKind::Unit, VKind::Small, VKind::Tiny, VKind::Zero],
        _ => &[VKind::Unit, VKind::Huge, VKind::Minus30, VKind::MixedHuge, VKind::Zero, VKind::Grid],
    }
}

pub const FLAVOURS: [&str; 4] = ["clean", "ties_zero_dups", "small_norms", "extreme_magnitudes"];

pub fn gen_cfg(r: &mut Rng, quant: bool) -> Cfg {
    let dim = *r.pick(HDIMS);
    let metric = METRICS[r.below(4)];
    let m = *r.pick(&[2usize, 3, 4, 8, 16, 16]);
    let quantc = if quant {
        let divisors: Vec<usize> = (1..=dim.min(16)).filter(|s| dim % s == 0).collect();
        let qt = match r.below(4) {
            0 => QuantizationType::None,
            1 => QuantizationType::Scalar,
            2 => QuantizationType::Binary,
            _ => QuantizationType::Product { num_subvectors: *r.pick(&divisors) },
        };
        Some(QCfg { qt, rescore: r.chance(0.7), factor: *r.pick(&[1usize, 2, 3]), threshold: *r.pick(&[10usize, 12, 25]) })
    } else {
        None
    };
    Cfg {
        dim,
        metric,
        m,
        efc: *r.pick(&[1usize, 2, 8, 32, 128]),
        ef: *r.pick(&[0usize, 1, 10, 50]),
        alpha: *r.pick(&[1.0f32, 1.0, 1.2]),
        index_seed: r.next_u64() >> 1,
        quant: quantc,
    }
}

/// A history of `n_ops` operations. `style` 0: distinct inserts only, kept small enough that
/// the length clause stays demanded; 1: everything mixed; 2: insert-only prefix, then churn.
pub fn gen_history(r: &mut Rng, cfg: &Cfg, n_ops: usize, style: usize, flavour: usize) -> Vec<Op> {
    let kinds = kinds_for(flavour);
    let dim = cfg.dim;
    let pool = 2 + r.below(if n_ops > 100 { 120 } else { 30 });
    let mut present: Vec<u64> = Vec::new();
    let mut vecs: Vec<Vec<f32>> = Vec::new(); // every vector ever inserted (duplicate source)
    let mut next_id = 1u64;
    let mut ops = Vec::with_capacity(n_ops);
    let small_cap = cfg.m * 2 + 1;
    let churn_from = if style == 2 { n_ops / 2 } else { 0 };
    for step in 0..n_ops {
        let pure = style == 0 || (style == 2 && step < churn_from);
        let w: [u32; 4] = if present.is_empty() {
            [90, 2, 6, 2]
        } else if pure {
            if style == 0 && present.len() >= small_cap { [0, 0, 85, 15] } else { [55, 0, 38, 7] }
        } else {
            [45, 18, 30, 7]
        };
        match r.weighted(&w) {
            0 => {
                let v = if !vecs.is_empty() && r.chance(0.12) { vecs[r.below(vecs.len())].clone() } else { gen_any(r, dim, kinds) };
                let id = if pure {
                    next_id += 1;
                    next_id * 7
                } else if r.chance(0.6) {
                    1 + r.below(pool) as u64
                } else if !present.is_empty() {
                    present[r.below(present.len())]
                } else {
                    1
                };
                if !present.contains(&id) {
                    present.push(id);
                }
                vecs.push(v.clone());
                ops.push(Op::Insert { id, v });
            }
            1 => {
                let id = if !present.is_empty() && r.chance(0.8) { present[r.below(present.len())] } else { 1 + r.below(pool) as u64 };
                present.retain(|x| *x != id);
                ops.push(Op::Remove { id });
            }
            x => {
                let len = present.len();
                let mk_q = |r: &mut Rng| {
                    if !vecs.is_empty() && r.chance(0.35) { vecs[r.below(vecs.len())].clone() } else { gen_any(r, dim, kinds) }
                };
                let k = pick_k(r, len);
                let ef = if r.chance(0.35) { None } else { Some(pick_k(r, len)) };
                if x == 2 {
                    ops.push(Op::Search { q: mk_q(r), k, ef });
                } else {
                    let nq = *r.pick(&[0usize, 1, 2, 9, 40]);
                    ops.push(Op::Batch { qs: (0..nq).map(|_| mk_q(r)).collect(), k, ef });
                }
            }
        }
    }
    ops
}

pub fn history_case(acc: &mut Acc, seed: u64, case: u64, quant: bool, long: bool) {
    let stream = if quant { "C18.qhnsw" } else { "C18.hnsw" };
    let mut r = Rng::new(seed, stream, case);
    let cfg = gen_cfg(&mut r, quant);
    let style = r.weighted(&[35, 45, 20]);
    let flavour = r.weighted(&[50, 20, 15, 15]);
    let cap = if cfg.dim >= 128 { 250 } else { 600 };
    let n_ops = if long && r.chance(0.3) { 100 + r.below(cap - 99) } else { 2 + r.below(if long { 120 } else { 70 }) };
    let ops = gen_history(&mut r, &cfg, n_ops, style, flavour);
    let origin = json!({"stream": stream, "seed": seed, "case": case, "style": style, "flavour": FLAVOURS[flavour]});
    let comp = cfg.comp();
    acc.count(&format!("{comp}.histories"), 1);
    acc.count(&format!("{}.histories.{}.{}", if quant { "qhnsw" } else { "hnsw" }, cfg.metric.name(), FLAVOURS[flavour]), 1);
    acc.count(&format!("{}.histories.dim{}", if quant { "qhnsw" } else { "hnsw" }, cfg.dim), 1);
    run_history(acc, &cfg, &ops, &origin);
    let ins = ops.iter().filter(|o| matches!(o, Op::Insert { .. })).count();
    let srch = ops.iter().filter(|o| matches!(o, Op::Search { .. } | Op::Batch { .. })).count();
    if ins >= 2 && srch >= 1 {
        acc.nontrivial(fnv(format!("{stream}{seed}{case}{n_ops}").as_bytes()));
    }
    if case < 2 {
        acc.sample(json!({"monitor": comp, "origin": origin, "config": cfg.show(), "ops": n_ops,
                          "head": show_ops(&ops[..ops.len().min(4)])}));
    }
}

/// Directed histories that run on every invocation (seed independent): one per
/// metric x dim x {k, ef} corner on a small insert-only index where every clause is demanded.
pub fn directed_small(acc: &mut Acc) {
    let mut cell = 0u64;
    for &metric in &METRICS {
        for &dim in HDIMS {
            for &m in &[2usize, 16] {
                let mut r = Rng::new(0x18, "C18.hnsw.directed", cell);
                cell += 1;
                let cfg = Cfg { dim, metric, m, efc: 128, ef: 50, alpha: 1.0, index_seed: cell, quant: None };
                let n = (m * 2 + 1).min(12);
                let mut ops = Vec::new();
                for i in 0..n {
                    ops.push(Op::Insert { id: 10 + i as u64, v: gen_vec(&mut r, dim, VKind::BigNorm) });
                    let len = i + 1;
                    for &k in &[0usize, 1, 2, len.saturating_sub(1), len, len + 5] {
                        for ef in [None, Some(0usize), Some(1), Some(len), Some(len + 5)] {
                            ops.push(Op::Search { q: gen_vec(&mut r, dim, VKind::BigNorm), k, ef });
                        }
                    }
                }
                let origin = json!({"stream": "C18.hnsw.directed", "cell": cell});
                run_history(acc, &cfg, &ops, &origin);
                acc.nontrivial(fnv(format!("hd{cell}").as_bytes()));
            }
        }
    }
    acc.count("hnsw.directed_cells", cell);
}

/// Observation probe (never a deviation: after a re-insert, reachability cannot be argued
/// from the public API, so the length clause is not demanded): re-insert every id of a small
/// index with its own, unchanged vector and count how often a search with k = ef >= len then
/// returns fewer than len results. Shown in evidence as `hnsw.observation.*`.
pub fn reinsert_probe(acc: &mut Acc) {
    for (cell, &metric) in METRICS.iter().enumerate() {
        let idx = HnswIndex::with_seed(HnswConfig::new(2, metric), 7 + cell as u64);
        let n = 10u64;
        let v = |i: u64| [1.0 + i as f32, 2.0];
        for i in 0..n {
            idx.insert(NodeId::new(i), &v(i));
        }
        let full = idx.search_with_ef(&[3.2, 2.0], n as usize, 2 * n as usize).len();
        acc.count("hnsw.observation.reinsert_probe.results_before_reinsert_of_10", full as u64);
        let mut least = full;
        for i in 0..n {
            idx.insert(NodeId::new(i), &v(i));
            least = least.min(idx.search_with_ef(&[3.2, 2.0], n as usize, 2 * n as usize).len());
        }
        acc.count("hnsw.observation.reinsert_probe.least_results_after_reinserting_same_vectors_of_10", least as u64);
    }
}
