//! C02 — commit and rollback are all-or-nothing.
//! (1) the deterministic cell matrix for the transaction endings (rollback, dropped session,
//! failed commit via the `txmgr.commit` fail point, successful commit), every read path, both
//! epoch regimes; (2) seeded multi-mutation transactions judged per write by a probe read:
//! after an aborting ending no write may survive, after a commit none may be lost.
use crate::hooks;
use crate::report::{Report, Tier};
use crate::rng::{Rng, hash_str};
use crate::txm::{self, Regime, Sc, W};
use serde_json::json;
use std::sync::atomic::Ordering;

/// Is the effect of write `w` visible to the reader? A targeted question that no other write
/// of INDEPENDENT influences. None = the probe itself failed (error / unexpected shape).
fn visible(w: W, s: &grafeo_engine::Session, fx: &txm::Fixture) -> Option<bool> {
    let rows = |q: &str| -> Option<Vec<Vec<grafeo_common::types::Value>>> {
        match crate::util::catch(|| s.execute(q)) {
            Ok(Ok(r)) => Some(r.iter().cloned().collect()),
            _ => None,
        }
    };
    let sparql_rows = |q: &str| -> Option<usize> {
        match crate::util::catch(|| s.execute_sparql(q)) {
            Ok(Ok(r)) => Some(r.row_count()),
            _ => None,
        }
    };
    use grafeo_common::types::Value;
    match w {
        W::InsertNodeGql | W::InsertNodeNamed => rows("MATCH (n:P {uid: 100}) RETURN n.uid").map(|r| !r.is_empty()),
        W::CreateNodeApi => fx.node_id.get(&101).map(|id| s.get_node(*id).is_some()),
        W::DeleteNode => rows("MATCH (n:P {uid: 4}) RETURN n.uid").map(|r| r.is_empty()),
        W::DetachDelete => rows("MATCH (n:P {uid: 2}) RETURN n.uid").map(|r| r.is_empty()),
        W::CreateEdgeGql | W::CreateEdgeNamed | W::CreateEdgeCypher | W::CreateEdgeReturn => rows("MATCH (a:P {uid: 1})-[r:R]->(b:P {uid: 3}) RETURN a.uid").map(|r| !r.is_empty()),
        W::CreateEdgeApi => fx.edge_id.get(&txm::UID_EDGE_API).map(|id| s.get_edge(*id).is_some()),
        W::DeleteEdge => rows("MATCH (a:P {uid: 1})-[r:R]->(b:P {uid: 2}) RETURN a.uid").map(|r| r.is_empty()),
        W::SetNodeProp => rows("MATCH (n:P {uid: 1}) RETURN n.v").and_then(|r| r.first().map(|x| x[0] == Value::Int64(777))),
        W::RemoveNodeProp => rows("MATCH (n:P {uid: 2}) RETURN n.v").and_then(|r| r.first().map(|x| x[0] == Value::Null)),
        W::SetEdgeProp => rows("MATCH (a:P {uid: 1})-[r:R]->(b:P {uid: 2}) RETURN r.w").and_then(|r| r.first().map(|x| x[0] == Value::Int64(5))),
        W::AddLabel => rows("MATCH (n:Q {uid: 1}) RETURN n.uid").map(|r| !r.is_empty()),
        W::RemoveLabel => rows("MATCH (n:Q {uid: 3}) RETURN n.uid").map(|r| r.is_empty()),
        W::MergeCreate => rows("MATCH (n:P {uid: 300}) RETURN n.uid").map(|r| !r.is_empty()),
        W::SetIndexedProp => Some(s.get_node_property(fx.node_id[&1], "iv") == Some(Value::Int64(777))),
        W::CypherCreate => rows("MATCH (n:P {uid: 102}) RETURN n.uid").map(|r| !r.is_empty()),
        W::SparqlInsert => sparql_rows("SELECT ?o WHERE { <http://s2> <http://p> ?o }").map(|n| n > 0),
        W::SparqlDelete => sparql_rows("SELECT ?o WHERE { <http://s1> <http://p> ?o }").map(|n| n == 0),
    }
}

/// writes whose effects are independent of each other (so that a multi-write transaction has
/// a well-defined per-write probe)
const INDEPENDENT: &[W] = &[
    W::InsertNodeGql, W::CreateNodeApi, W::DeleteNode, W::CreateEdgeGql, W::CreateEdgeApi, W::SetNodeProp,
    W::RemoveNodeProp, W::AddLabel, W::RemoveLabel, W::MergeCreate, W::SetIndexedProp, W::CypherCreate,
    W::SparqlInsert, W::SparqlDelete,
];

#[derive(Clone, Copy, Debug)]
enum Ending {
    Commit,
    Rollback,
    Drop,
    FailedCommit,
}

fn multi(rep: &mut Report, seed: u64, case: u64) {
    let mut rng = Rng::new(seed, "C02.multi", case);
    let regime = if rng.chance(0.5) { Regime::Fresh } else { Regime::AfterCommit };
    let ending = *rng.pick(&[Ending::Commit, Ending::Rollback, Ending::Drop, Ending::FailedCommit]);
    let mut ws: Vec<W> = INDEPENDENT.to_vec();
    rng.shuffle(&mut ws);
    ws.truncate(2 + rng.below(6));
    let mut fx = txm::fixture(regime);
    let mut s = fx.db.session();
    if s.begin_tx().is_err() {
        rep.inconclusive("begin_tx failed in multi");
        return;
    }
    let mut applied = Vec::new();
    for w in &ws {
        if w.apply(&s, &mut fx).is_ok() {
            applied.push(*w);
        }
    }
    // order-sensitive triple writes inside the same transaction: insert-then-delete of one triple
    // (net effect: absent) and delete-then-insert of another (net effect: present)
    let triple_pairs = rng.chance(0.5);
    if triple_pairs {
        let _ = s.execute_sparql("INSERT DATA { <http://t1> <http://p> <http://o> }");
        let _ = s.execute_sparql("DELETE DATA { <http://t1> <http://p> <http://o> }");
        let _ = s.execute_sparql("DELETE DATA { <http://s1> <http://q> <http://o9> }");
        let _ = s.execute_sparql("INSERT DATA { <http://s1> <http://q> <http://o9> }");
    }
    let committed = match ending {
        Ending::Commit => s.commit().is_ok(),
        Ending::Rollback => {
            let _ = s.rollback();
            false
        }
        Ending::Drop => {
            drop(s);
            s = fx.db.session();
            false
        }
        Ending::FailedCommit => {
            hooks::FAIL_COMMIT.store(true, Ordering::SeqCst);
            let r = s.commit();
            hooks::FAIL_COMMIT.store(false, Ordering::SeqCst);
            if r.is_ok() {
                rep.deviation("multi:failed_commit_returned_ok", json!({}));
            }
            false
        }
    };
    drop(s);
    let mut reader = fx.db.session();
    let in_tx = rng.chance(0.5);
    if in_tx {
        let _ = reader.begin_tx();
    }
    rep.eval();
    rep.count(&format!("multi.ending.{ending:?}"), 1);
    // per write: is its effect visible to a later observer?
    let mut visible_now = Vec::new();
    for w in &applied {
        visible_now.push((*w, visible(*w, &reader, &fx)));
    }
    let kinds: std::collections::BTreeSet<&str> = applied.iter().map(|w| w.name()).collect();
    if applied.len() >= 2 && kinds.len() >= 2 {
        rep.nontrivial(hash_str(&format!("{:?}{:?}{}", applied, ending, regime.name())));
    }
    if case < 3 {
        rep.sample(json!({"multi_case": case, "regime": regime.name(), "ending": format!("{ending:?}"), "writes": applied.iter().map(|w| w.name()).collect::<Vec<_>>(),
            "visible_afterwards": visible_now.iter().map(|(w, s)| (w.name().to_string(), format!("{s:?}"))).collect::<Vec<_>>()}));
    }
    for (w, shows) in &visible_now {
        let outcome = match shows {
            Some(x) if *x == committed => continue,
            Some(true) => "survived",
            Some(false) => "lost",
            None => "probe_failed",
        };
        rep.deviation(
            &format!("multi:{}|{:?}|{}={}", w.name(), ending, regime.name(), outcome),
            json!({"write": w.name(), "ending": format!("{ending:?}"), "regime": regime.name(), "transaction": applied.iter().map(|w| w.name()).collect::<Vec<_>>(), "reader_in_tx": in_tx}),
        );
    }
    if triple_pairs {
        let rows = |q: &str| reader.execute_sparql(q).map(|r| r.row_count()).unwrap_or(usize::MAX);
        let t1 = rows("SELECT ?o WHERE { <http://t1> <http://p> ?o }");
        let t2 = rows("SELECT ?o WHERE { <http://s1> <http://q> ?o }");
        rep.count("multi.triple_order_pairs", 1);
        // insert-then-delete: absent whatever the ending
        if t1 != 0 {
            rep.deviation(&format!("multi:sparql_insert_then_delete|{ending:?}=present"), json!({"regime": regime.name(), "rows": t1}));
        }
        // delete-then-insert: present after commit, absent after an abort
        let want = usize::from(committed);
        if t2 != want {
            rep.deviation(&format!("multi:sparql_delete_then_insert|{ending:?}={}", if t2 == 0 { "absent" } else { "present" }), json!({"regime": regime.name(), "rows": t2}));
        }
    }
    // atomicity as such: a transaction must not end up partially visible
    let n_true = visible_now.iter().filter(|v| v.1 == Some(true)).count();
    let n_false = visible_now.iter().filter(|v| v.1 == Some(false)).count();
    if n_true > 0 && n_false > 0 {
        rep.count("multi.partially_visible_transactions", 1);
    }
}

pub fn run(tier: Tier, seed: u64) -> ! {
    let mut rep = Report::new("C02", tier, seed, "exploration");
    rep.rule = "(1) complete enumeration of cells (17 write kinds) x (26 read paths) x (endings: rollback [3 observers], dropped session [2], failed commit through the txmgr.commit fail point [3], successful commit [2 + 1 after an unrelated commit]) x (2 epoch regimes), oracle = reference model state the observer is entitled to; (2) seeded random transactions of 2-7 independent mutations of different kinds ended by commit / rollback / drop / failed commit, each write judged by its probe read from a later observer (in or outside a transaction): after an abort no write may survive, after a commit none may be lost, and the number of partially visible transactions is counted. non-trivial = relevant cell (answer differs with/without the write) resp. transaction with >= 2 applied writes of >= 2 kinds".into();
    let fail = |on: bool| hooks::FAIL_COMMIT.store(on, Ordering::SeqCst);
    txm::run_matrix(&mut rep, &[Sc::Rollback, Sc::Drop, Sc::FailedCommit, Sc::CommittedBefore, Sc::UnrelatedCommit], &fail);
    let n = tier.pick(2000, 40_000);
    for case in 0..n {
        multi(&mut rep, seed, case);
    }
    if crate::txo::rules_as_modelled(&rep) {
        let n: u64 = std::env::var("C02_OVERLAP").ok().and_then(|s| s.parse().ok()).unwrap_or(tier.pick(800, 12_000));
        for case in 0..n {
            crate::txo::overlap_history(&mut rep, seed, case, crate::txo::Mode::Atomicity, &fail);
        }
    } else {
        println!("INFO: property=C02 overlapping-session histories skipped: the set of open findings differs from the one the deviation model was written for");
    }
    rep.assumptions = vec![
        "a commit that reports an error is produced with the txmgr.commit fail point (query operators never register writes, so no natural conflict can occur through a session)".into(),
        "observers run on the same thread after the ending".into(),
    ];
    rep.finish()
}
