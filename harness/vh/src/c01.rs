//! C01 — transactions read a stable snapshot: directed matrix write kind x read path x
//! scenario x epoch regime (complete enumeration on every run), judged by the snapshot
//! reference model.
use crate::report::{Report, Tier};
use crate::txm::{self, Sc};

pub fn run(tier: Tier, seed: u64) -> ! {
    let mut rep = Report::new("C01", tier, seed, "exploration");
    rep.rule = "complete enumeration of cells (17 write kinds: node/edge create+delete through GQL, Cypher and the session API, SET/REMOVE property on node and edge, indexed property, add/remove label, MERGE, SPARQL INSERT/DELETE DATA) x (26 read paths: label scan, unlabelled scan, projections, filter, index path, expand typed/untyped/incoming, 2-hop, variable length, count, edge properties, Cypher, Gremlin, GraphQL, SPARQL pattern, session point lookups / neighbours / degree / batch, database-level counts and iterators) x (8 scenarios, 14 observation points: uncommitted foreign write seen by a reader without transaction / in a transaction begun before / after the write; repeatable read across a foreign commit; committed-before-begin; own write; auto-commit; reader after an unrelated commit) x (2 epoch regimes). Oracle: reference model state without (S0) / with (S1) the write, whichever the reader is entitled to. non-trivial cell = read path whose answer differs between S0 and S1 for that write".into();
    txm::run_matrix(
        &mut rep,
        &[Sc::DirtyNonTx, Sc::DirtyTxBefore, Sc::DirtyTxAfter, Sc::Repeatable, Sc::CommittedBefore, Sc::OwnWrite, Sc::AutoCommit, Sc::UnrelatedCommit, Sc::SnapshotAcrossCommit],
        &|_| {},
    );
    rep.extra.insert("exhaustive".into(), serde_json::json!(true));
    // seeded serial histories: compositions of many writes on the same entities
    let rollback_rule = rep.findings.rule_open("C02-R1");
    for case in 0..tier.pick(1500, 20_000) {
        txm::serial_history(&mut rep, seed, case, rollback_rule);
    }
    // seeded histories of overlapping sessions, judged by specification + deviation model
    if crate::txo::rules_as_modelled(&rep) {
        let fail = |on: bool| crate::hooks::FAIL_COMMIT.store(on, std::sync::atomic::Ordering::SeqCst);
        let n: u64 = std::env::var("C01_OVERLAP").ok().and_then(|s| s.parse().ok()).unwrap_or(tier.pick(800, 12_000));
        for case in 0..n {
            crate::txo::overlap_history(&mut rep, seed, case, crate::txo::Mode::Isolation, &fail);
        }
    } else {
        println!("INFO: property=C01 overlapping-session histories skipped: the set of open findings differs from the one the deviation model was written for");
    }
    rep.assumptions = vec![
        "interleaving is at statement granularity on one thread (races inside a statement are C20's)".into(),
        "the matrix is deterministic: the seed only drives the serial histories (one active session at a time, 8-37 steps of parametrised writes on shared entities, all read paths after every step; rollback modelled by finding C02-R1 while it is open)".into(),
    ];
    rep.finish()
}
