//! C17 — logical operators, generators, the Vec-based reference evaluation and the comparator.

use crate::rng::Rng;
use crate::vals;
use grafeo_common::types::Value;
use serde_json::{Value as J, json};
use std::cmp::Ordering;
use std::collections::HashMap;

pub type Row = Vec<Value>;
pub type Rows = Vec<Row>;

#[derive(Clone, Copy, PartialEq, Eq, Debug, Hash)]
pub enum Kind {
    Int,
    Float,
    Str,
    /// strings that all parse as (pairwise different) numbers
    NumStr,
    Bool,
    /// payload of every value type
    Any,
}

impl Kind {
    pub fn tag(self) -> &'static str {
        match self {
            Kind::Int => "int",
            Kind::Float => "float",
            Kind::Str => "str",
            Kind::NumStr => "numstr",
            Kind::Bool => "bool",
            Kind::Any => "any",
        }
    }
    pub fn ordered(self) -> bool {
        !matches!(self, Kind::Any)
    }
    /// tag used for key columns in skeletons: only bool and any behave specially as keys
    pub fn key_tag(self) -> &'static str {
        match self {
            Kind::Bool => "bool",
            Kind::Any => "any",
            _ => "scalar",
        }
    }
}

#[derive(Clone, Debug)]
pub struct Table {
    pub kinds: Vec<Kind>,
    pub rows: Rows,
}

impl Table {
    pub fn columns(&self) -> Vec<Vec<Value>> {
        let mut cols: Vec<Vec<Value>> = self.kinds.iter().map(|_| Vec::with_capacity(self.rows.len())).collect();
        for r in &self.rows {
            for (c, v) in r.iter().enumerate() {
                cols[c].push(v.clone());
            }
        }
        cols
    }
}

#[derive(Clone, Copy, PartialEq, Eq, Debug)]
pub enum Cmp {
    Eq,
    Ne,
    Lt,
    Le,
    Gt,
    Ge,
}

#[derive(Clone, Copy, PartialEq, Eq, Debug)]
pub struct SKey {
    pub col: usize,
    pub desc: bool,
    /// NULL placement relative to the ascending order (every implementation in the crate reverses
    /// it together with the direction)
    pub nulls_first: bool,
}

#[derive(Clone, Copy, PartialEq, Eq, Debug)]
pub enum AggF {
    Count,
    Sum,
    Min,
    Max,
    Avg,
}

impl AggF {
    fn tag(self) -> &'static str {
        match self {
            AggF::Count => "count",
            AggF::Sum => "sum",
            AggF::Min => "min",
            AggF::Max => "max",
            AggF::Avg => "avg",
        }
    }
}

#[derive(Clone, Debug, PartialEq)]
pub enum PItem {
    Col(usize),
    Const(Value),
}

#[derive(Clone, Debug)]
pub enum Op {
    Filter { col: usize, cmp: Cmp, val: Value },
    Project(Vec<PItem>),
    Limit(usize),
    Skip(usize),
    SkipLimit(usize, usize),
    Distinct(Option<Vec<usize>>),
    Sort(Vec<SKey>),
    Agg { group: Vec<usize>, aggs: Vec<(AggF, Option<usize>)> },
}

impl Op {
    pub fn name(&self) -> &'static str {
        match self {
            Op::Filter { .. } => "filter",
            Op::Project(_) => "project",
            Op::Limit(_) => "limit",
            Op::Skip(_) => "skip",
            Op::SkipLimit(..) => "skiplimit",
            Op::Distinct(None) => "distinct",
            Op::Distinct(Some(_)) => "distinct_on",
            Op::Sort(_) => "sort",
            Op::Agg { group, .. } => {
                if group.is_empty() {
                    "gagg"
                } else {
                    "agg"
                }
            }
        }
    }
    pub fn stateless(&self) -> bool {
        matches!(self, Op::Filter { .. } | Op::Project(_))
    }
    /// simpler variants tried while shrinking
    pub fn simpler(&self) -> Vec<Op> {
        let mut v = Vec::new();
        match self {
            Op::Agg { group, aggs } => {
                if aggs.len() > 1 {
                    for i in 0..aggs.len() {
                        let mut a = aggs.clone();
                        a.remove(i);
                        v.push(Op::Agg { group: group.clone(), aggs: a });
                    }
                }
                for i in 0..group.len() {
                    let mut g = group.clone();
                    g.remove(i);
                    v.push(Op::Agg { group: g, aggs: aggs.clone() });
                }
                if aggs.len() == 1 && aggs[0] != (AggF::Count, None) {
                    v.push(Op::Agg { group: group.clone(), aggs: vec![(AggF::Count, None)] });
                }
            }
            Op::Sort(keys) if keys.len() > 1 => {
                for i in 0..keys.len() {
                    let mut k = keys.clone();
                    k.remove(i);
                    v.push(Op::Sort(k));
                }
            }
            Op::Distinct(Some(cols)) if cols.len() > 1 => {
                for i in 0..cols.len() {
                    let mut c = cols.clone();
                    c.remove(i);
                    v.push(Op::Distinct(Some(c)));
                }
            }
            Op::SkipLimit(s, l) => {
                v.push(Op::Skip(*s));
                v.push(Op::Limit(*l));
                if *s > 1 {
                    v.push(Op::SkipLimit(1, *l));
                    v.push(Op::SkipLimit(*s / 2, *l));
                }
                if *l > 1 {
                    v.push(Op::SkipLimit(*s, 1));
                    v.push(Op::SkipLimit(*s, *l / 2));
                }
            }
            Op::Limit(l) if *l > 1 => {
                v.push(Op::Limit(1));
                v.push(Op::Limit(*l / 2));
                v.push(Op::Limit(*l - 1));
            }
            Op::Skip(s) if *s > 1 => {
                v.push(Op::Skip(1));
                v.push(Op::Skip(*s / 2));
                v.push(Op::Skip(*s - 1));
            }
            Op::Project(items) => {
                if items.len() > 1 {
                    for i in 0..items.len() {
                        let mut it = items.clone();
                        it.remove(i);
                        v.push(Op::Project(it));
                    }
                }
                // constants -> plain column references (so that the projection can be inlined away)
                for i in 0..items.len() {
                    if matches!(items[i], PItem::Const(_)) {
                        for c in 0..4 {
                            let mut it = items.clone();
                            it[i] = PItem::Col(c);
                            v.push(Op::Project(it));
                        }
                    }
                }
            }
            _ => {}
        }
        v
    }
}

pub fn is_null(v: &Value) -> bool {
    matches!(v, Value::Null)
}

pub fn rkey(r: &[Value]) -> String {
    let mut s = String::new();
    for (i, v) in r.iter().enumerate() {
        if i > 0 {
            s.push('\u{1}');
        }
        s.push_str(&vals::key(v));
    }
    s
}

fn pkey(r: &[Value], cols: &[usize]) -> String {
    let mut s = String::new();
    for (i, c) in cols.iter().enumerate() {
        if i > 0 {
            s.push('\u{1}');
        }
        s.push_str(&vals::key(&r[*c]));
    }
    s
}

// ---------------------------------------------------------------------------------------------
// generators
// ---------------------------------------------------------------------------------------------

const STRS: [&str; 12] = ["", "a", "b", "ab", "B", "é", "日本", "z z", "a\0b", "x'y", "abc", "zz"];

struct ColGen {
    kind: Kind,
    null_p: f64,
    /// value range selector
    mode: u8,
}

fn gen_value(rng: &mut Rng, g: &ColGen) -> Value {
    if g.kind != Kind::Any && g.null_p > 0.0 && rng.chance(g.null_p) {
        return Value::Null;
    }
    match g.kind {
        Kind::Int => Value::Int64(match g.mode {
            0 => rng.range(-3, 3),
            1 => rng.range(-1000, 1000),
            _ => rng.range(-(1 << 40), 1 << 40),
        }),
        Kind::Float => Value::Float64(match g.mode {
            0 => rng.range(-6, 6) as f64 / 2.0,
            _ => rng.range(-4000, 4000) as f64 / 4.0,
        }),
        Kind::Str => vals::s(if g.mode == 0 { STRS[rng.below(4)] } else { STRS[rng.below(STRS.len())] }),
        Kind::NumStr => vals::s(&format!("{}", if g.mode == 0 { rng.range(-3, 12) } else { rng.range(-20, 120) })),
        Kind::Bool => Value::Bool(rng.chance(0.5)),
        Kind::Any => {
            if rng.chance(0.3) {
                let p = vals::pool();
                p[rng.below(p.len())].clone()
            } else {
                vals::random(rng, 1)
            }
        }
    }
}

pub fn gen_table_with(rng: &mut Rng, n: usize, kinds: &[Kind]) -> Table {
    let gens: Vec<ColGen> = kinds
        .iter()
        .map(|&k| ColGen { kind: k, null_p: *rng.pick(&[0.0, 0.1, 0.1, 0.3, 0.6]), mode: rng.below(3) as u8 })
        .collect();
    let mut rows = Vec::with_capacity(n);
    for _ in 0..n {
        rows.push(gens.iter().map(|g| gen_value(rng, g)).collect::<Row>());
    }
    // duplicate whole rows now and then (distinct needs real duplicates)
    if n >= 2 {
        let dups = n / 5;
        for _ in 0..dups {
            let a = rng.below(n);
            let b = rng.below(n);
            rows[a] = rows[b].clone();
        }
    }
    Table { kinds: kinds.to_vec(), rows }
}

pub fn gen_table(rng: &mut Rng, n: usize) -> Table {
    let ncols = if n > 20_000 { 1 + rng.below(3) } else { 1 + rng.below(5) };
    let mut kinds = Vec::new();
    for _ in 0..ncols {
        kinds.push(match rng.weighted(&[30, 20, 20, 4, 10, if n > 20_000 { 3 } else { 16 }]) {
            0 => Kind::Int,
            1 => Kind::Float,
            2 => Kind::Str,
            3 => Kind::NumStr,
            4 => Kind::Bool,
            _ => Kind::Any,
        });
    }
    if kinds.iter().all(|k| *k == Kind::Any) {
        kinds[0] = Kind::Int;
    }
    gen_table_with(rng, n, &kinds)
}

fn const_for(rng: &mut Rng, kind: Kind, rows: &Rows, col: usize) -> Value {
    // prefer a value that occurs (so Eq/Le boundaries are hit)
    if !rows.is_empty() && rng.chance(0.7) {
        for _ in 0..8 {
            let v = &rows[rng.below(rows.len())][col];
            if !is_null(v) {
                return v.clone();
            }
        }
    }
    match kind {
        Kind::Int => Value::Int64(rng.range(-3, 3)),
        Kind::Float => Value::Float64(rng.range(-6, 6) as f64 / 2.0),
        Kind::Str => vals::s(STRS[rng.below(STRS.len())]),
        Kind::NumStr => vals::s(&format!("{}", rng.range(-3, 12))),
        Kind::Bool => Value::Bool(rng.chance(0.5)),
        Kind::Any => Value::Null,
    }
}

fn cut_value(rng: &mut Rng, n: usize) -> usize {
    match rng.below(9) {
        0 => 0,
        1 => 1,
        2 => n.saturating_sub(1),
        3 => n,
        4 => n + 1,
        5 => 2048.min(n + 5),
        6 => n / 2,
        7 => rng.below(n + 2),
        _ => 1 + rng.below(20),
    }
}

pub fn gen_op(rng: &mut Rng, kinds: &[Kind], rows_hint: &Rows, n_now: usize) -> Option<Op> {
    let ordered: Vec<usize> = (0..kinds.len()).filter(|&c| kinds[c].ordered()).collect();
    let numeric: Vec<usize> = (0..kinds.len()).filter(|&c| matches!(kinds[c], Kind::Int | Kind::Float)).collect();
    match rng.weighted(&[22, 14, 10, 7, 5, 10, 5, 15, 14]) {
        0 => {
            if ordered.is_empty() {
                return None;
            }
            let col = *rng.pick(&ordered);
            let cmp = if kinds[col] == Kind::Bool {
                *rng.pick(&[Cmp::Eq, Cmp::Ne])
            } else {
                *rng.pick(&[Cmp::Eq, Cmp::Ne, Cmp::Lt, Cmp::Le, Cmp::Gt, Cmp::Ge])
            };
            let val = if rows_hint.first().is_some_and(|r| r.len() == kinds.len()) {
                const_for(rng, kinds[col], rows_hint, col)
            } else {
                const_for(rng, kinds[col], &Vec::new(), col)
            };
            if is_null(&val) {
                return None;
            }
            Some(Op::Filter { col, cmp, val })
        }
        1 => {
            let k = 1 + rng.below(kinds.len().min(3) + 1);
            let mut items = Vec::new();
            for _ in 0..k {
                if rng.chance(0.12) {
                    items.push(PItem::Const(match rng.below(3) {
                        0 => Value::Int64(rng.range(-2, 2)),
                        1 => vals::s("k"),
                        _ => Value::Null,
                    }));
                } else {
                    items.push(PItem::Col(rng.below(kinds.len())));
                }
            }
            if !items.iter().any(|i| matches!(i, PItem::Col(_))) {
                items[0] = PItem::Col(0);
            }
            Some(Op::Project(items))
        }
        2 => Some(Op::Limit(cut_value(rng, n_now))),
        3 => Some(Op::Skip(cut_value(rng, n_now))),
        4 => Some(Op::SkipLimit(cut_value(rng, n_now), cut_value(rng, n_now))),
        5 => Some(Op::Distinct(None)),
        6 => {
            let k = 1 + rng.below(kinds.len().min(2));
            let mut cols: Vec<usize> = (0..kinds.len()).collect();
            rng.shuffle(&mut cols);
            cols.truncate(k);
            Some(Op::Distinct(Some(cols)))
        }
        7 => {
            if ordered.is_empty() {
                return None;
            }
            let k = 1 + rng.below(ordered.len().min(2));
            let mut cols = ordered.clone();
            rng.shuffle(&mut cols);
            cols.truncate(k);
            Some(Op::Sort(cols.into_iter().map(|col| SKey { col, desc: rng.chance(0.5), nulls_first: rng.chance(0.5) }).collect()))
        }
        _ => {
            let group: Vec<usize> = if rng.chance(0.2) {
                Vec::new()
            } else {
                let k = 1 + rng.below(kinds.len().min(2));
                let mut cols: Vec<usize> = (0..kinds.len()).collect();
                rng.shuffle(&mut cols);
                cols.truncate(k);
                cols
            };
            let na = 1 + rng.below(3);
            let mut aggs = Vec::new();
            for _ in 0..na {
                match rng.below(6) {
                    0 => aggs.push((AggF::Count, None)),
                    1 => aggs.push((AggF::Count, Some(rng.below(kinds.len())))),
                    2 | 3 => {
                        if numeric.is_empty() {
                            aggs.push((AggF::Count, None));
                        } else {
                            aggs.push((*rng.pick(&[AggF::Sum, AggF::Avg]), Some(*rng.pick(&numeric))));
                        }
                    }
                    _ => {
                        if ordered.is_empty() {
                            aggs.push((AggF::Count, None));
                        } else {
                            aggs.push((*rng.pick(&[AggF::Min, AggF::Max]), Some(*rng.pick(&ordered))));
                        }
                    }
                }
            }
            Some(Op::Agg { group, aggs })
        }
    }
}

pub fn gen_chain(rng: &mut Rng, t: &Table) -> Vec<Op> {
    let len = 1 + rng.weighted(&[30, 35, 22, 13]);
    let mut kinds = t.kinds.clone();
    let mut chain: Vec<Op> = Vec::new();
    let mut tries = 0;
    while chain.len() < len && tries < 40 {
        tries += 1;
        let cur = ref_eval(&t.rows, &chain, None);
        if cur.used < chain.len() {
            break;
        }
        let Some(op) = gen_op(rng, &kinds, &cur.rows, cur.rows.len()) else { continue };
        let Some(k2) = apply_schema(&kinds, &op) else { continue };
        kinds = k2;
        chain.push(op);
    }
    chain
}

// ---------------------------------------------------------------------------------------------
// schema tracking / validity / skeleton
// ---------------------------------------------------------------------------------------------

fn const_kind(v: &Value) -> Kind {
    match v {
        Value::Int64(_) => Kind::Int,
        Value::Float64(_) => Kind::Float,
        Value::String(_) => Kind::Str,
        Value::Bool(_) => Kind::Bool,
        _ => Kind::Any,
    }
}

pub fn apply_schema(kinds: &[Kind], op: &Op) -> Option<Vec<Kind>> {
    let n = kinds.len();
    match op {
        Op::Filter { col, cmp, val } => {
            if *col >= n || !kinds[*col].ordered() {
                return None;
            }
            let ck = const_kind(val);
            let ok = match kinds[*col] {
                Kind::NumStr | Kind::Str => ck == Kind::Str,
                k => k == ck,
            };
            if !ok || (kinds[*col] == Kind::Bool && !matches!(cmp, Cmp::Eq | Cmp::Ne)) {
                return None;
            }
            Some(kinds.to_vec())
        }
        Op::Project(items) => {
            if items.is_empty() {
                return None;
            }
            let mut out = Vec::new();
            for it in items {
                match it {
                    PItem::Col(c) => {
                        if *c >= n {
                            return None;
                        }
                        out.push(kinds[*c]);
                    }
                    PItem::Const(v) => out.push(if is_null(v) { Kind::Any } else { const_kind(v) }),
                }
            }
            Some(out)
        }
        Op::Limit(_) | Op::Skip(_) | Op::SkipLimit(..) | Op::Distinct(None) => Some(kinds.to_vec()),
        Op::Distinct(Some(cols)) => {
            if cols.is_empty() || cols.iter().any(|c| *c >= n) {
                return None;
            }
            Some(kinds.to_vec())
        }
        Op::Sort(keys) => {
            if keys.is_empty() || keys.iter().any(|k| k.col >= n || !kinds[k.col].ordered()) {
                return None;
            }
            Some(kinds.to_vec())
        }
        Op::Agg { group, aggs } => {
            if aggs.is_empty() || group.iter().any(|c| *c >= n) {
                return None;
            }
            let mut out: Vec<Kind> = group.iter().map(|c| kinds[*c]).collect();
            for (f, c) in aggs {
                match (f, c) {
                    (AggF::Count, None) => out.push(Kind::Int),
                    (AggF::Count, Some(c)) => {
                        if *c >= n {
                            return None;
                        }
                        out.push(Kind::Int)
                    }
                    (_, None) => return None,
                    (AggF::Sum, Some(c)) => {
                        if *c >= n || !matches!(kinds[*c], Kind::Int | Kind::Float) {
                            return None;
                        }
                        // pull: Int64 for ints, Float64 for floats, Int64(0) over nothing
                        out.push(if kinds[*c] == Kind::Int { Kind::Int } else { Kind::Any })
                    }
                    (AggF::Avg, Some(c)) => {
                        if *c >= n || !matches!(kinds[*c], Kind::Int | Kind::Float) {
                            return None;
                        }
                        out.push(Kind::Float)
                    }
                    (AggF::Min | AggF::Max, Some(c)) => {
                        if *c >= n || !kinds[*c].ordered() {
                            return None;
                        }
                        out.push(kinds[*c])
                    }
                }
            }
            Some(out)
        }
    }
}

pub fn chain_valid(kinds: &[Kind], chain: &[Op]) -> bool {
    let mut k = kinds.to_vec();
    for op in chain {
        match apply_schema(&k, op) {
            Some(k2) => k = k2,
            None => return false,
        }
    }
    true
}

/// Remove input column `c`; ops that reference it make the result invalid (None). Only ops up to the
/// first schema-changing op (project / agg) reference input columns directly.
pub fn drop_column(t: &Table, chain: &[Op], c: usize) -> Option<(Table, Vec<Op>)> {
    let remap = |x: usize| -> Option<usize> {
        if x == c {
            None
        } else if x > c {
            Some(x - 1)
        } else {
            Some(x)
        }
    };
    let mut out = Vec::new();
    let mut direct = true;
    for op in chain {
        if !direct {
            out.push(op.clone());
            continue;
        }
        match op {
            Op::Filter { col, cmp, val } => out.push(Op::Filter { col: remap(*col)?, cmp: *cmp, val: val.clone() }),
            Op::Project(items) => {
                let mut it2 = Vec::new();
                for it in items {
                    it2.push(match it {
                        PItem::Col(x) => PItem::Col(remap(*x)?),
                        PItem::Const(v) => PItem::Const(v.clone()),
                    });
                }
                out.push(Op::Project(it2));
                direct = false;
            }
            Op::Distinct(Some(cols)) => out.push(Op::Distinct(Some(cols.iter().map(|x| remap(*x)).collect::<Option<Vec<_>>>()?))),
            Op::Sort(keys) => out.push(Op::Sort(
                keys.iter().map(|k| remap(k.col).map(|col| SKey { col, ..*k })).collect::<Option<Vec<_>>>()?,
            )),
            Op::Agg { group, aggs } => {
                let g = group.iter().map(|x| remap(*x)).collect::<Option<Vec<_>>>()?;
                let mut a2 = Vec::new();
                for (f, col) in aggs {
                    a2.push((*f, match col {
                        Some(x) => Some(remap(*x)?),
                        None => None,
                    }));
                }
                out.push(Op::Agg { group: g, aggs: a2 });
                direct = false;
            }
            other => out.push(other.clone()),
        }
    }
    let mut kinds = t.kinds.clone();
    kinds.remove(c);
    let rows = t
        .rows
        .iter()
        .map(|r| {
            let mut r = r.clone();
            r.remove(c);
            r
        })
        .collect();
    let t2 = Table { kinds, rows };
    if !chain_valid(&t2.kinds, &out) {
        return None;
    }
    Some((t2, out))
}

/// Remove the projection at `i`, rewriting the column references of the following operators through it.
/// None when a later operator refers to a constant item or the rewrite is not possible.
pub fn inline_project(chain: &[Op], i: usize) -> Option<Vec<Op>> {
    let Op::Project(items) = &chain[i] else { return None };
    let map = |c: usize| -> Option<usize> {
        match items.get(c)? {
            PItem::Col(x) => Some(*x),
            PItem::Const(_) => None,
        }
    };
    let mut out: Vec<Op> = chain[..i].to_vec();
    let mut direct = true;
    for op in &chain[i + 1..] {
        if !direct {
            out.push(op.clone());
            continue;
        }
        match op {
            Op::Filter { col, cmp, val } => out.push(Op::Filter { col: map(*col)?, cmp: *cmp, val: val.clone() }),
            Op::Project(it2) => {
                let mut v = Vec::new();
                for it in it2 {
                    v.push(match it {
                        PItem::Col(x) => PItem::Col(map(*x)?),
                        PItem::Const(c) => PItem::Const(c.clone()),
                    });
                }
                out.push(Op::Project(v));
                direct = false;
            }
            // distinct over all columns depends on the projected column set: keep it on exactly those
            Op::Distinct(None) => out.push(Op::Distinct(Some((0..items.len()).map(map).collect::<Option<Vec<_>>>()?))),
            Op::Distinct(Some(cols)) => out.push(Op::Distinct(Some(cols.iter().map(|x| map(*x)).collect::<Option<Vec<_>>>()?))),
            Op::Sort(keys) => out.push(Op::Sort(keys.iter().map(|k| map(k.col).map(|col| SKey { col, ..*k })).collect::<Option<Vec<_>>>()?)),
            Op::Agg { group, aggs } => {
                let g = group.iter().map(|x| map(*x)).collect::<Option<Vec<_>>>()?;
                let mut a2 = Vec::new();
                for (f, col) in aggs {
                    a2.push((*f, match col {
                        Some(x) => Some(map(*x)?),
                        None => None,
                    }));
                }
                out.push(Op::Agg { group: g, aggs: a2 });
                direct = false;
            }
            other => out.push(other.clone()),
        }
    }
    Some(out)
}

/// Operator skeleton used in signatures (kinds of the referenced columns, no constants).
pub fn skeleton(kinds: &[Kind], chain: &[Op]) -> String {
    if chain.is_empty() {
        return "scan".into();
    }
    let mut k = kinds.to_vec();
    let mut parts = Vec::new();
    for op in chain {
        let s = match op {
            Op::Filter { .. } => "filter".to_string(),
            Op::Project(_) => "project".to_string(),
            Op::Limit(0) => "limit0".to_string(),
            Op::Limit(_) => "limit".to_string(),
            Op::Skip(_) => "skip".to_string(),
            Op::SkipLimit(..) => "skiplimit".to_string(),
            Op::Distinct(None) => {
                let mut ks: Vec<&str> = k.iter().map(|x| x.key_tag()).collect();
                ks.sort_unstable();
                ks.dedup();
                format!("distinct[{}]", ks.join(","))
            }
            Op::Distinct(Some(cols)) => {
                let mut ks: Vec<&str> = cols.iter().filter_map(|c| k.get(*c)).map(|x| x.key_tag()).collect();
                ks.sort_unstable();
                ks.dedup();
                format!("distinct_on[{}]", ks.join(","))
            }
            Op::Sort(keys) => {
                let mut ks: Vec<&str> = keys.iter().filter_map(|c| k.get(c.col)).map(|x| x.key_tag()).collect();
                ks.sort_unstable();
                ks.dedup();
                format!("sort[{}]", ks.join(","))
            }
            Op::Agg { group, aggs } => {
                let mut gs: Vec<&str> = group.iter().filter_map(|c| k.get(*c)).map(|x| x.key_tag()).collect();
                gs.sort_unstable();
                gs.dedup();
                let mut asg: Vec<String> = aggs
                    .iter()
                    .map(|(f, c)| match c {
                        None => "count*".to_string(),
                        Some(c) => format!("{}:{}", f.tag(), k.get(*c).map_or("?", |x| x.tag())),
                    })
                    .collect();
                asg.sort();
                asg.dedup();
                if group.is_empty() {
                    format!("gagg[{}]", asg.join(","))
                } else {
                    format!("agg[{};{}]", gs.join(","), asg.join(","))
                }
            }
        };
        parts.push(s);
        if let Some(k2) = apply_schema(&k, op) {
            k = k2;
        }
    }
    parts.join(">")
}

// ---------------------------------------------------------------------------------------------
// directed operator variants
// ---------------------------------------------------------------------------------------------

/// Operator variants for the directed matrix on a table with kinds [Int, Float, Str, Bool, Any].
pub fn directed_ops(kinds: &[Kind], n: usize) -> Vec<Op> {
    let mut v = Vec::new();
    let has = |k: Kind| kinds.iter().position(|x| *x == k);
    if let Some(c) = has(Kind::Int) {
        v.push(Op::Filter { col: c, cmp: Cmp::Ge, val: Value::Int64(0) });
        v.push(Op::Filter { col: c, cmp: Cmp::Ne, val: Value::Int64(1) });
    }
    if let Some(c) = has(Kind::Str) {
        v.push(Op::Filter { col: c, cmp: Cmp::Lt, val: vals::s("b") });
    }
    if let Some(c) = has(Kind::Bool) {
        v.push(Op::Filter { col: c, cmp: Cmp::Eq, val: Value::Bool(false) });
    }
    v.push(Op::Project(vec![PItem::Col(kinds.len() - 1), PItem::Col(0)]));
    v.push(Op::Project(vec![PItem::Col(0), PItem::Const(Value::Int64(7))]));
    for l in [n / 2 + 1, 0, 1, n, n + 1, 2048] {
        v.push(Op::Limit(l));
    }
    for s in [n / 3, 0, n, 2049] {
        v.push(Op::Skip(s));
    }
    v.push(Op::SkipLimit(n / 4, n / 2));
    v.push(Op::SkipLimit(0, 0));
    v.push(Op::Distinct(None));
    for c in 0..kinds.len() {
        v.push(Op::Distinct(Some(vec![c])));
    }
    for c in 0..kinds.len() {
        if kinds[c].ordered() {
            v.push(Op::Sort(vec![SKey { col: c, desc: false, nulls_first: false }]));
            v.push(Op::Sort(vec![SKey { col: c, desc: true, nulls_first: true }]));
        }
    }
    if kinds.len() >= 2 && kinds[0].ordered() && kinds[1].ordered() {
        v.push(Op::Sort(vec![SKey { col: 1, desc: true, nulls_first: false }, SKey { col: 0, desc: false, nulls_first: true }]));
    }
    // grouped: every function over every admissible kind, one at a time, grouped by every kind
    for g in 0..kinds.len() {
        v.push(Op::Agg { group: vec![g], aggs: vec![(AggF::Count, None)] });
    }
    let g0 = has(Kind::Str).unwrap_or(0);
    for c in 0..kinds.len() {
        v.push(Op::Agg { group: vec![g0], aggs: vec![(AggF::Count, Some(c))] });
        if matches!(kinds[c], Kind::Int | Kind::Float) {
            v.push(Op::Agg { group: vec![g0], aggs: vec![(AggF::Sum, Some(c))] });
            v.push(Op::Agg { group: vec![g0], aggs: vec![(AggF::Avg, Some(c))] });
        }
        if kinds[c].ordered() {
            v.push(Op::Agg { group: vec![g0], aggs: vec![(AggF::Min, Some(c))] });
            v.push(Op::Agg { group: vec![g0], aggs: vec![(AggF::Max, Some(c))] });
        }
    }
    // global
    v.push(Op::Agg { group: vec![], aggs: vec![(AggF::Count, None)] });
    if let Some(c) = has(Kind::Int) {
        v.push(Op::Agg { group: vec![], aggs: vec![(AggF::Count, None), (AggF::Sum, Some(c)), (AggF::Min, Some(c)), (AggF::Avg, Some(c))] });
        v.push(Op::Agg { group: vec![], aggs: vec![(AggF::Sum, Some(c))] });
        v.push(Op::Agg { group: vec![], aggs: vec![(AggF::Max, Some(c))] });
    }
    v.retain(|op| apply_schema(kinds, op).is_some());
    v
}

pub fn first_of_each_kind(ops: &[Op]) -> Vec<Op> {
    let mut seen = std::collections::BTreeSet::new();
    let mut v = Vec::new();
    for o in ops {
        if seen.insert(o.name()) {
            v.push(o.clone());
        }
    }
    v
}

/// Re-target operator `b` (written for the original schema) onto schema `k2`.
pub fn retarget(b: &Op, k2: &[Kind], n: usize) -> Option<Op> {
    let find = |k: Kind| k2.iter().position(|x| *x == k);
    let any_ord = k2.iter().position(|x| x.ordered());
    let op = match b {
        Op::Filter { .. } => {
            if let Some(c) = find(Kind::Int) {
                Op::Filter { col: c, cmp: Cmp::Ge, val: Value::Int64(0) }
            } else if let Some(c) = find(Kind::Str) {
                Op::Filter { col: c, cmp: Cmp::Lt, val: vals::s("b") }
            } else {
                return None;
            }
        }
        Op::Project(_) => Op::Project(vec![PItem::Col(k2.len() - 1), PItem::Col(0)]),
        Op::Limit(_) => Op::Limit(n / 4 + 1),
        Op::Skip(_) => Op::Skip(n / 5),
        Op::SkipLimit(..) => Op::SkipLimit(n / 8, n / 5),
        Op::Distinct(None) => Op::Distinct(None),
        Op::Distinct(Some(_)) => Op::Distinct(Some(vec![0])),
        Op::Sort(_) => Op::Sort(vec![SKey { col: any_ord?, desc: false, nulls_first: false }]),
        Op::Agg { group, .. } => {
            if group.is_empty() {
                Op::Agg { group: vec![], aggs: vec![(AggF::Count, None)] }
            } else {
                Op::Agg { group: vec![0], aggs: vec![(AggF::Count, None)] }
            }
        }
    };
    apply_schema(k2, &op).map(|_| op)
}

// ---------------------------------------------------------------------------------------------
// reference evaluation
// ---------------------------------------------------------------------------------------------

#[derive(Clone, Debug, PartialEq)]
pub enum Order {
    /// sequence fully determined (input order carried through order-preserving operators)
    Input,
    /// sorted by these keys; order inside tie groups undefined
    Sorted(Vec<SKey>),
    Unordered,
}

#[derive(Clone, Debug)]
pub enum Approx {
    /// limit/skip over a stream whose row identity is undefined: count, inclusion in `pre`, and (when
    /// `pre` is sorted) the sequence of sort keys are defined
    Cut { pre: Rows, sorted: Option<Vec<SKey>> },
    /// distinct on a subset of columns: one row per key, which one is undefined
    DistinctOn { pre: Rows, cols: Vec<usize> },
}

pub struct RefOut {
    pub rows: Rows,
    pub order: Order,
    /// number of leading operators of the chain that were applied (evaluation stops after the first
    /// operator whose output is only approximately defined)
    pub used: usize,
    pub approx: Option<Approx>,
}

pub fn cmp_vals(a: &Value, b: &Value) -> Ordering {
    match (a, b) {
        (Value::Bool(a), Value::Bool(b)) => a.cmp(b),
        (Value::Int64(a), Value::Int64(b)) => a.cmp(b),
        (Value::Float64(a), Value::Float64(b)) => a.partial_cmp(b).unwrap_or(Ordering::Equal),
        (Value::String(a), Value::String(b)) => a.as_str().cmp(b.as_str()),
        _ => Ordering::Equal,
    }
}

pub fn cmp_rows(a: &[Value], b: &[Value], keys: &[SKey]) -> Ordering {
    for k in keys {
        let (x, y) = (&a[k.col], &b[k.col]);
        let o = match (is_null(x), is_null(y)) {
            (true, true) => Ordering::Equal,
            (true, false) => {
                if k.nulls_first {
                    Ordering::Less
                } else {
                    Ordering::Greater
                }
            }
            (false, true) => {
                if k.nulls_first {
                    Ordering::Greater
                } else {
                    Ordering::Less
                }
            }
            _ => cmp_vals(x, y),
        };
        let o = if k.desc { o.reverse() } else { o };
        if o != Ordering::Equal {
            return o;
        }
    }
    Ordering::Equal
}

fn filter_pass(v: &Value, cmp: Cmp, c: &Value) -> bool {
    let same = matches!(
        (v, c),
        (Value::Int64(_), Value::Int64(_)) | (Value::Float64(_), Value::Float64(_)) | (Value::String(_), Value::String(_)) | (Value::Bool(_), Value::Bool(_))
    );
    match cmp {
        Cmp::Eq => same && cmp_vals(v, c) == Ordering::Equal,
        // `<>` passes NULL and type mismatches in both the pull and the push dialect
        Cmp::Ne => !(same && cmp_vals(v, c) == Ordering::Equal),
        Cmp::Lt => same && cmp_vals(v, c) == Ordering::Less,
        Cmp::Le => same && cmp_vals(v, c) != Ordering::Greater,
        Cmp::Gt => same && cmp_vals(v, c) == Ordering::Greater,
        Cmp::Ge => same && cmp_vals(v, c) != Ordering::Less,
    }
}

fn num_of(v: &Value) -> Option<f64> {
    match v {
        Value::Int64(i) => Some(*i as f64),
        Value::Float64(f) => Some(*f),
        _ => None,
    }
}

/// min/max ordering of the pull dialect: same-type order, numeric for strings that both parse.
fn agg_less(a: &Value, b: &Value) -> bool {
    match (a, b) {
        (Value::String(x), Value::String(y)) => {
            if let (Ok(p), Ok(q)) = (x.parse::<f64>(), y.parse::<f64>()) {
                p < q
            } else {
                x.as_str() < y.as_str()
            }
        }
        _ => cmp_vals(a, b) == Ordering::Less,
    }
}

fn agg_eval(f: AggF, col: Option<usize>, rows: &[&Row]) -> Value {
    match (f, col) {
        (AggF::Count, None) => Value::Int64(rows.len() as i64),
        (AggF::Count, Some(c)) => Value::Int64(rows.iter().filter(|r| !is_null(&r[c])).count() as i64),
        (AggF::Sum, Some(c)) => {
            let mut isum: i64 = 0;
            let mut fsum: f64 = 0.0;
            let mut float = false;
            for r in rows {
                match &r[c] {
                    Value::Int64(i) => {
                        isum = isum.wrapping_add(*i);
                        fsum += *i as f64;
                    }
                    Value::Float64(x) => {
                        float = true;
                        fsum += *x;
                    }
                    _ => {}
                }
            }
            if float { Value::Float64(fsum) } else { Value::Int64(isum) }
        }
        (AggF::Avg, Some(c)) => {
            let xs: Vec<f64> = rows.iter().filter_map(|r| num_of(&r[c])).collect();
            if xs.is_empty() { Value::Null } else { Value::Float64(xs.iter().sum::<f64>() / xs.len() as f64) }
        }
        (AggF::Min, Some(c)) | (AggF::Max, Some(c)) => {
            let mut best: Option<&Value> = None;
            for r in rows {
                let v = &r[c];
                if is_null(v) {
                    continue;
                }
                best = Some(match best {
                    None => v,
                    Some(b) => {
                        let better = if f == AggF::Min { agg_less(v, b) } else { agg_less(b, v) };
                        if better { v } else { b }
                    }
                });
            }
            best.cloned().unwrap_or(Value::Null)
        }
        _ => Value::Null,
    }
}

pub fn ref_eval(input: &Rows, chain: &[Op], unordered_from: Option<usize>) -> RefOut {
    let mut rows: Rows = input.clone();
    let mut order = Order::Input;
    for (i, op) in chain.iter().enumerate() {
        if unordered_from == Some(i) && !matches!(op, Op::Sort(_)) {
            order = Order::Unordered;
        }
        match op {
            Op::Filter { col, cmp, val } => rows.retain(|r| filter_pass(&r[*col], *cmp, val)),
            Op::Project(items) => {
                rows = rows
                    .iter()
                    .map(|r| {
                        items
                            .iter()
                            .map(|it| match it {
                                PItem::Col(c) => r[*c].clone(),
                                PItem::Const(v) => v.clone(),
                            })
                            .collect()
                    })
                    .collect();
                if let Order::Sorted(keys) = &order {
                    let mut nk = Vec::new();
                    let mut ok = true;
                    for k in keys {
                        match items.iter().position(|it| *it == PItem::Col(k.col)) {
                            Some(p) => nk.push(SKey { col: p, ..*k }),
                            None => {
                                ok = false;
                                break;
                            }
                        }
                    }
                    order = if ok { Order::Sorted(nk) } else { Order::Unordered };
                }
            }
            Op::Limit(_) | Op::Skip(_) | Op::SkipLimit(..) => {
                let n = rows.len();
                let (s, l) = match op {
                    Op::Limit(l) => (0, *l),
                    Op::Skip(s) => (*s, usize::MAX),
                    Op::SkipLimit(s, l) => (*s, *l),
                    _ => unreachable!(),
                };
                let lo = s.min(n);
                let hi = lo.saturating_add(l).min(n);
                let exact = match &order {
                    Order::Input => true,
                    Order::Unordered => lo == 0 && hi == n || lo == hi,
                    Order::Sorted(keys) => {
                        let split = |p: usize| p > 0 && p < n && cmp_rows(&rows[p - 1], &rows[p], keys) == Ordering::Equal;
                        !(split(lo) || split(hi))
                    }
                };
                if exact {
                    rows = rows[lo..hi].to_vec();
                } else {
                    let pre = rows.clone();
                    let sorted = if let Order::Sorted(k) = &order { Some(k.clone()) } else { None };
                    rows = rows[lo..hi].to_vec();
                    return RefOut { rows, order, used: i + 1, approx: Some(Approx::Cut { pre, sorted }) };
                }
            }
            Op::Distinct(None) => {
                let mut seen = std::collections::HashSet::new();
                rows.retain(|r| seen.insert(rkey(r)));
            }
            Op::Distinct(Some(cols)) => {
                let pre = rows.clone();
                let mut seen = std::collections::HashSet::new();
                rows.retain(|r| seen.insert(pkey(r, cols)));
                return RefOut { rows, order: Order::Unordered, used: i + 1, approx: Some(Approx::DistinctOn { pre, cols: cols.clone() }) };
            }
            Op::Sort(keys) => {
                rows.sort_by(|a, b| cmp_rows(a, b, keys));
                order = Order::Sorted(keys.clone());
            }
            Op::Agg { group, aggs } => {
                let mut out: Rows = Vec::new();
                if group.is_empty() {
                    let all: Vec<&Row> = rows.iter().collect();
                    out.push(aggs.iter().map(|(f, c)| agg_eval(*f, *c, &all)).collect());
                } else {
                    let mut idx: HashMap<String, usize> = HashMap::new();
                    let mut groups: Vec<Vec<&Row>> = Vec::new();
                    for r in &rows {
                        let k = pkey(r, group);
                        let g = *idx.entry(k).or_insert_with(|| {
                            groups.push(Vec::new());
                            groups.len() - 1
                        });
                        groups[g].push(r);
                    }
                    for g in &groups {
                        let mut r: Row = group.iter().map(|c| g[0][*c].clone()).collect();
                        for (f, c) in aggs {
                            r.push(agg_eval(*f, *c, g));
                        }
                        out.push(r);
                    }
                }
                rows = out;
                order = Order::Unordered;
            }
        }
    }
    RefOut { rows, order, used: chain.len(), approx: None }
}

// ---------------------------------------------------------------------------------------------
// comparison
// ---------------------------------------------------------------------------------------------

pub fn cls(v: &Value) -> &'static str {
    match v {
        Value::Null => "null",
        Value::Bool(_) => "bool",
        Value::Int64(_) => "int",
        Value::Float64(_) => "float",
        Value::String(_) => "string",
        _ => "nonscalar",
    }
}

fn multiset(rows: &Rows) -> HashMap<String, (i64, usize)> {
    let mut m: HashMap<String, (i64, usize)> = HashMap::with_capacity(rows.len());
    for (i, r) in rows.iter().enumerate() {
        let e = m.entry(rkey(r)).or_insert((0, i));
        e.0 += 1;
    }
    m
}

fn show_row(r: &[Value]) -> J {
    json!(r.iter().map(vals::show).collect::<Vec<_>>())
}

/// rows of `a` not matched in `b` (multiset difference), as indices into `a`
fn diff(a: &Rows, b: &Rows) -> Vec<usize> {
    let mut mb: HashMap<String, i64> = HashMap::with_capacity(b.len());
    for r in b {
        *mb.entry(rkey(r)).or_insert(0) += 1;
    }
    let mut out = Vec::new();
    for (i, r) in a.iter().enumerate() {
        match mb.get_mut(&rkey(r)) {
            Some(c) if *c > 0 => *c -= 1,
            _ => out.push(i),
        }
    }
    out
}

/// None = agrees with the reference; Some((kind, detail)) otherwise.
pub fn compare(out: &Rows, r: &RefOut) -> Option<(String, J)> {
    match &r.approx {
        None => {
            let missing = diff(&r.rows, out);
            let extra = diff(out, &r.rows);
            if missing.is_empty() && extra.is_empty() {
                if let Order::Sorted(keys) = &r.order {
                    for w in 0..out.len().saturating_sub(1) {
                        if cmp_rows(&out[w], &out[w + 1], keys) == Ordering::Greater {
                            return Some(("unsorted".into(), json!({"position": w, "a": show_row(&out[w]), "b": show_row(&out[w + 1]), "keys": format!("{keys:?}")})));
                        }
                    }
                }
                return None;
            }
            let detail = json!({
                "expected_rows": r.rows.len(), "got_rows": out.len(),
                "missing_count": missing.len(), "extra_count": extra.len(),
                "missing_first": missing.iter().take(3).map(|i| show_row(&r.rows[*i])).collect::<Vec<_>>(),
                "extra_first": extra.iter().take(3).map(|i| show_row(&out[*i])).collect::<Vec<_>>(),
            });
            // one row differs in one cell and the *type* of the cell changed: name the change;
            // everything else is "rows_differ" (which rows go missing depends on the data)
            let mut kind = "rows_differ".to_string();
            if missing.len() == 1 && extra.len() == 1 {
                let (e, g) = (&r.rows[missing[0]], &out[extra[0]]);
                if e.len() != g.len() {
                    kind = "arity".to_string();
                } else {
                    let cs: Vec<usize> = (0..e.len()).filter(|c| !vals::bit_eq(&e[*c], &g[*c])).collect();
                    if cs.len() == 1 && cls(&e[cs[0]]) != cls(&g[cs[0]]) {
                        kind = format!("cell:{}->{}", cls(&e[cs[0]]), cls(&g[cs[0]]));
                    }
                }
            }
            Some((kind, detail))
        }
        Some(Approx::Cut { pre, sorted }) => {
            if out.len() != r.rows.len() {
                return Some(("cut".into(), json!({"expected_rows": r.rows.len(), "got_rows": out.len()})));
            }
            let not_in = diff(out, pre);
            if !not_in.is_empty() {
                return Some(("cut".into(), json!({"row_not_in_input": show_row(&out[not_in[0]]), "count": not_in.len()})));
            }
            if let Some(keys) = sorted {
                let cols: Vec<usize> = keys.iter().map(|k| k.col).collect();
                for i in 0..out.len() {
                    if cmp_rows(&out[i], &r.rows[i], keys) != Ordering::Equal {
                        return Some(("cut".into(), json!({"position": i, "expected_key": pkey(&r.rows[i], &cols), "got_key": pkey(&out[i], &cols)})));
                    }
                }
            }
            None
        }
        Some(Approx::DistinctOn { pre, cols }) => {
            let ek: std::collections::BTreeSet<String> = r.rows.iter().map(|x| pkey(x, cols)).collect();
            let mut gk = std::collections::BTreeSet::new();
            for x in out {
                if x.len() != pre.first().map_or(x.len(), |p| p.len()) {
                    return Some(("arity".into(), json!({"row": show_row(x)})));
                }
                if !gk.insert(pkey(x, cols)) {
                    return Some(("distinct_on".into(), json!({"row": show_row(x)})));
                }
            }
            if ek != gk {
                let miss: Vec<&String> = ek.difference(&gk).take(3).collect();
                let extra: Vec<&String> = gk.difference(&ek).take(3).collect();
                let kind = if extra.is_empty() { "distinct_on" } else { "distinct_on" };
                return Some((kind.into(), json!({"expected_keys": ek.len(), "got_keys": gk.len(), "missing": miss, "extra": extra})));
            }
            let not_in = diff(out, pre);
            if !not_in.is_empty() {
                return Some(("distinct_on".into(), json!({"row_not_in_input": show_row(&out[not_in[0]])})));
            }
            None
        }
    }
}

#[allow(dead_code)]
pub fn multiset_eq(a: &Rows, b: &Rows) -> bool {
    let (ma, mb) = (multiset(a), multiset(b));
    ma.len() == mb.len() && ma.iter().all(|(k, v)| mb.get(k).is_some_and(|w| w.0 == v.0))
}
