//! C05 — a persistent database reopens to exactly the state it was closed with.
//! Random open / mutate / checkpoint / rotate / sync / close / reopen histories on a real
//! on-disk GrafeoDB; after every reopen the full dump is compared with the persistent
//! reference model (spec: everything survives). Known defects are described as named
//! deviation rules on a simulated log (what the engine really writes and replays); an
//! observation must equal the spec, or exactly the prediction of the open rules.

use crate::hooks;
use crate::model::Model;
use crate::report::{Report, Tier};
use crate::rng::{Rng, hash_str};
use crate::util::{catch, scratch_dir};
use crate::vals::{self, bit_eq};
use grafeo_common::types::{EdgeId, NodeId, Value};
use grafeo_engine::config::DurabilityMode;
use grafeo_engine::{Config, GrafeoDB};
use serde_json::json;
use std::collections::{BTreeMap, BTreeSet};
use std::sync::atomic::Ordering;

#[derive(Clone, Debug)]
pub enum MOp {
    CreateNode { id: u64, labels: Vec<String> },
    DeleteNode { id: u64 },
    CreateEdge { id: u64, src: u64, dst: u64, ty: String },
    DeleteEdge { id: u64 },
    SetNodeProp { id: u64, k: String, v: Value },
    SetEdgeProp { id: u64, k: String, v: Value },
    RemoveNodeProp { id: u64, k: String },
    RemoveEdgeProp { id: u64, k: String },
    AddLabel { id: u64, l: String },
    RemoveLabel { id: u64, l: String },
}

impl MOp {
    pub fn apply(&self, m: &mut Model) {
        match self {
            // The engine's property tables are keyed by id and never check that the entity
            // exists: a value written for a missing id stays and is inherited by the next entity
            // that gets this id (only reachable when records were lost, i.e. under the rules).
            MOp::CreateNode { id, labels } => {
                let l: Vec<&str> = labels.iter().map(|s| s.as_str()).collect();
                m.add_node(*id, &l, &[]);
                if let Some(o) = m.orphan_node_props.remove(id) {
                    m.nodes.get_mut(id).unwrap().props = o;
                }
            }
            MOp::DeleteNode { id } => {
                // deleting a missing node is a no-op (its orphan values stay)
                m.del_node(*id, false);
            }
            MOp::CreateEdge { id, src, dst, ty } => {
                m.add_edge(*id, *src, *dst, ty, &[]);
                if let Some(o) = m.orphan_edge_props.remove(id) {
                    m.edges.get_mut(id).unwrap().props = o;
                }
            }
            MOp::DeleteEdge { id } => {
                m.del_edge(*id);
            }
            MOp::SetNodeProp { id, k, v } => match m.nodes.get_mut(id) {
                Some(n) => {
                    n.props.insert(k.clone(), v.clone());
                }
                None => {
                    m.orphan_node_props.entry(*id).or_default().insert(k.clone(), v.clone());
                }
            },
            MOp::SetEdgeProp { id, k, v } => match m.edges.get_mut(id) {
                Some(e) => {
                    e.props.insert(k.clone(), v.clone());
                }
                None => {
                    m.orphan_edge_props.entry(*id).or_default().insert(k.clone(), v.clone());
                }
            },
            MOp::RemoveNodeProp { id, k } => match m.nodes.get_mut(id) {
                Some(n) => {
                    n.props.remove(k);
                }
                None => {
                    if let Some(o) = m.orphan_node_props.get_mut(id) {
                        o.remove(k);
                    }
                }
            },
            MOp::RemoveEdgeProp { id, k } => match m.edges.get_mut(id) {
                Some(e) => {
                    e.props.remove(k);
                }
                None => {
                    if let Some(o) = m.orphan_edge_props.get_mut(id) {
                        o.remove(k);
                    }
                }
            },
            MOp::AddLabel { id, l } => {
                if let Some(n) = m.nodes.get_mut(id) {
                    n.labels.insert(l.clone());
                }
            }
            MOp::RemoveLabel { id, l } => {
                if let Some(n) = m.nodes.get_mut(id) {
                    n.labels.remove(l);
                }
            }
        }
    }
}

#[derive(Clone, Debug)]
pub enum Rec {
    Op(MOp),
    Commit,
    Checkpoint,
    /// a record that is torn or fails its checksum: recovery stops reading this file here
    Torn,
}

/// Which deviation rules (open findings) are switched on.
#[derive(Clone, Copy, Debug, PartialEq, Eq)]
pub struct Rules {
    /// U1: statements executed through sessions append nothing to the log
    pub u1: bool,
    /// U2: remove_node_property / remove_edge_property append nothing
    pub u2: bool,
    /// U3: wal_checkpoint() writes a checkpoint marker without a commit marker; recovery drops
    /// everything logged since the last commit marker when it sees it
    pub u3: bool,
    /// U4: recovery skips log files whose sequence is below the checkpoint's although their
    /// content was never persisted elsewhere
    pub u4: bool,
}

impl Rules {
    pub fn from_findings(f: &crate::report::Findings) -> Self {
        Rules { u1: f.rule_open("C05-U1"), u2: f.rule_open("C05-U2"), u3: f.rule_open("C05-U3"), u4: f.rule_open("C05-U4") }
    }
    pub fn without(self, which: usize) -> Rules {
        let mut r = self;
        match which {
            1 => r.u1 = false,
            2 => r.u2 = false,
            3 => r.u3 = false,
            _ => r.u4 = false,
        }
        r
    }
}

/// The recorded history of one database directory: every mutation (with whether the engine
/// was observed to append a record for it) and every log event, in the exact order in which
/// the `wal.record` / `wal.rotate` / `wal.ckpt.renamed` hook events arrived.
#[derive(Clone, Debug)]
pub enum Logged {
    /// via: 0 = direct API, 1 = session statement, 2 = remove_*_property
    Op { op: MOp, via: u8, logged: bool },
    /// a TxCommit record (written by close())
    Commit,
    /// a Checkpoint record
    CkptRec,
    /// checkpoint.meta renamed into place with log_sequence = current file
    Meta,
    /// log rotation (explicit or size-triggered)
    Rotate,
}

/// Specification: everything that was done survives.
pub fn predict_spec(events: &[Logged]) -> Model {
    let mut m = Model::default();
    for e in events {
        if let Logged::Op { op, .. } = e {
            op.apply(&mut m);
        }
    }
    // orphan bookkeeping is an artefact of lost records; the spec has none
    m.orphan_node_props.clear();
    m.orphan_edge_props.clear();
    m
}

/// Prediction of what the engine recovers, under the deviation `rules`:
/// u1/u2 on = ops the engine did not log are absent from the files (as observed);
/// u3 on = a Checkpoint record is not preceded by a commit marker unless one was observed;
/// u4 on = files below the checkpoint's sequence are skipped.
pub fn predict(events: &[Logged], rules: Rules) -> Model {
    let mut files: BTreeMap<u64, Vec<Rec>> = BTreeMap::new();
    let mut cur = 0u64;
    let mut ckpt: Option<u64> = None;
    files.insert(0, Vec::new());
    let mut prev_was_commit = false;
    for e in events {
        match e {
            Logged::Op { op, via, logged } => {
                let present = *logged || (*via == 1 && !rules.u1) || (*via == 2 && !rules.u2);
                if present {
                    files.get_mut(&cur).unwrap().push(Rec::Op(op.clone()));
                    prev_was_commit = false;
                }
            }
            Logged::Commit => {
                files.get_mut(&cur).unwrap().push(Rec::Commit);
                prev_was_commit = true;
            }
            Logged::CkptRec => {
                if !rules.u3 && !prev_was_commit {
                    files.get_mut(&cur).unwrap().push(Rec::Commit);
                }
                files.get_mut(&cur).unwrap().push(Rec::Checkpoint);
                prev_was_commit = false;
            }
            Logged::Meta => ckpt = Some(cur),
            Logged::Rotate => {
                cur += 1;
                files.insert(cur, Vec::new());
            }
        }
    }
    recover_sim(&files, ckpt, rules)
}

/// The engine's recovery, simulated on explicit per-file record lists.
pub fn recover_sim(files: &BTreeMap<u64, Vec<Rec>>, ckpt: Option<u64>, rules: Rules) -> Model {
    let min_seq = if rules.u4 { ckpt.unwrap_or(0) } else { 0 };
    let mut pending: Vec<MOp> = Vec::new();
    let mut committed: Vec<MOp> = Vec::new();
    for (seq, recs) in files {
        if *seq < min_seq {
            continue;
        }
        for r in recs {
            match r {
                Rec::Op(op) => pending.push(op.clone()),
                Rec::Commit => committed.append(&mut pending),
                // the engine's recovery drops what is pending when it reads a checkpoint record
                Rec::Checkpoint => pending.clear(),
                // stop this file, go on with the next one
                Rec::Torn => break,
            }
        }
    }
    let mut m = Model::default();
    for op in &committed {
        op.apply(&mut m);
    }
    m
}

/// Turn the ops of one step plus the hook events it produced into history entries.
/// Returns false if the number of records does not fit any reading (harness out of step).
pub fn absorb(events: &mut Vec<Logged>, pushed: Vec<(MOp, u8)>, evs: &[(&'static str, u64, u64)], kind: StepKind) -> bool {
    let n_rec = evs.iter().filter(|e| e.0 == "wal.record").count();
    match kind {
        StepKind::Mutation => {
            let n_api = pushed.iter().filter(|p| p.1 == 0).count();
            let logged: Vec<bool> = if n_rec == pushed.len() {
                vec![true; pushed.len()]
            } else if n_rec == n_api {
                pushed.iter().map(|p| p.1 == 0).collect()
            } else {
                return false;
            };
            let mut it = pushed.into_iter().zip(logged).peekable();
            for e in evs {
                match e.0 {
                    "wal.record" => {
                        // unlogged ops that came before this record keep their place
                        while let Some(((_, _), false)) = it.peek() {
                            let ((op, via), _) = it.next().unwrap();
                            events.push(Logged::Op { op, via, logged: false });
                        }
                        if let Some(((op, via), _)) = it.next() {
                            events.push(Logged::Op { op, via, logged: true });
                        }
                    }
                    "wal.rotate" => events.push(Logged::Rotate),
                    _ => {}
                }
            }
            for ((op, via), l) in it {
                events.push(Logged::Op { op, via, logged: l });
            }
            true
        }
        StepKind::Close | StepKind::Checkpoint => {
            // close(): TxCommit record, Checkpoint record, metadata; wal_checkpoint(): Checkpoint
            // record (one record observed) or TxCommit + Checkpoint (two), metadata
            let expect_commit = n_rec == 2;
            if n_rec == 0 || n_rec > 2 || (kind == StepKind::Close && n_rec != 2) {
                return false;
            }
            let mut seen = 0;
            for e in evs {
                match e.0 {
                    "wal.record" => {
                        seen += 1;
                        if expect_commit && seen == 1 {
                            events.push(Logged::Commit);
                        } else {
                            events.push(Logged::CkptRec);
                        }
                    }
                    "wal.rotate" => events.push(Logged::Rotate),
                    "wal.ckpt.renamed" => events.push(Logged::Meta),
                    _ => {}
                }
            }
            true
        }
        StepKind::Other => {
            for e in evs {
                if e.0 == "wal.rotate" {
                    events.push(Logged::Rotate);
                }
            }
            n_rec == 0
        }
    }
}

#[derive(Clone, Copy, PartialEq, Eq, Debug)]
pub enum StepKind {
    Mutation,
    Close,
    Checkpoint,
    Other,
}

pub fn dump(db: &GrafeoDB) -> Model {
    let mut m = Model::default();
    for n in db.iter_nodes() {
        let labels: Vec<String> = n.labels.iter().map(|l| l.to_string()).collect();
        let l: Vec<&str> = labels.iter().map(|s| s.as_str()).collect();
        let props: Vec<(String, Value)> = n.properties.iter().map(|(k, v)| (k.as_str().to_string(), v.clone())).collect();
        let p: Vec<(&str, Value)> = props.iter().map(|(k, v)| (k.as_str(), v.clone())).collect();
        m.add_node(n.id.as_u64(), &l, &p);
    }
    for e in db.iter_edges() {
        let props: Vec<(String, Value)> = e.properties.iter().map(|(k, v)| (k.as_str().to_string(), v.clone())).collect();
        let p: Vec<(&str, Value)> = props.iter().map(|(k, v)| (k.as_str(), v.clone())).collect();
        m.add_edge(e.id.as_u64(), e.src.as_u64(), e.dst.as_u64(), e.edge_type.as_str(), &p);
    }
    m
}

/// first difference kind between an observed dump and an expected model
pub fn diff_kind(obs: &Model, exp: &Model) -> Option<(String, serde_json::Value)> {
    for (id, n) in &exp.nodes {
        match obs.nodes.get(id) {
            None => return Some(("missing_node".into(), json!({"id": id}))),
            Some(o) => {
                if o.labels != n.labels {
                    return Some(("node_labels".into(), json!({"id": id, "got": o.labels, "expected": n.labels})));
                }
                let same = o.props.len() == n.props.len() && n.props.iter().all(|(k, v)| o.props.get(k).is_some_and(|x| bit_eq(x, v)));
                if !same {
                    return Some(("node_props".into(), json!({"id": id, "got": format!("{:?}", o.props), "expected": format!("{:?}", n.props)})));
                }
            }
        }
    }
    for id in obs.nodes.keys() {
        if !exp.nodes.contains_key(id) {
            return Some(("extra_node".into(), json!({"id": id})));
        }
    }
    for (id, e) in &exp.edges {
        match obs.edges.get(id) {
            None => return Some(("missing_edge".into(), json!({"id": id}))),
            Some(o) => {
                if (o.src, o.dst, &o.ty) != (e.src, e.dst, &e.ty) {
                    return Some(("edge_shape".into(), json!({"id": id})));
                }
                let same = o.props.len() == e.props.len() && e.props.iter().all(|(k, v)| o.props.get(k).is_some_and(|x| bit_eq(x, v)));
                if !same {
                    return Some(("edge_props".into(), json!({"id": id, "got": format!("{:?}", o.props), "expected": format!("{:?}", e.props)})));
                }
            }
        }
    }
    for id in obs.edges.keys() {
        if !exp.edges.contains_key(id) {
            return Some(("extra_edge".into(), json!({"id": id})));
        }
    }
    None
}

const LABELS: &[&str] = &["A", "B", "C"];
const KEYS: &[&str] = &["k", "w"];

pub fn mode_name(m: &DurabilityMode) -> &'static str {
    match m {
        DurabilityMode::Sync => "sync",
        DurabilityMode::Batch { .. } => "batch",
        DurabilityMode::Adaptive { .. } => "adaptive",
        DurabilityMode::NoSync => "nosync",
    }
}

pub fn pick_mode(r: &mut Rng) -> DurabilityMode {
    match r.below(4) {
        0 => DurabilityMode::Sync,
        1 => DurabilityMode::Batch { max_delay_ms: 1 + r.below(3) as u64, max_records: 1 + r.below(4) as u64 },
        2 => DurabilityMode::Adaptive { target_interval_ms: 1 + r.below(5) as u64 },
        _ => DurabilityMode::NoSync,
    }
}

/// One mutating step against the open database; appends what the spec says is logged.
pub fn mutate(db: &GrafeoDB, m: &mut Model, events: &mut Vec<(MOp, u8)>, r: &mut Rng, hist: &mut Vec<String>, kinds: &mut BTreeSet<&'static str>) {
    mutate_opt(db, m, events, r, hist, kinds, false);
}

/// `logged_only`: restrict to the calls the engine logs (no remove_*_property, no session
/// statements) — used by the crash checks, whose oracle is about the log.
pub fn mutate_opt(db: &GrafeoDB, m: &mut Model, events: &mut Vec<(MOp, u8)>, r: &mut Rng, hist: &mut Vec<String>, kinds: &mut BTreeSet<&'static str>, logged_only: bool) {
    let live: Vec<u64> = m.nodes.keys().copied().collect();
    let elive: Vec<u64> = m.edges.keys().copied().collect();
    let val = |r: &mut Rng| {
        if r.chance(0.012) {
            // a value whose log record is larger than 1 MiB / 16 MiB: nothing in the format bounds it
            let n = *r.pick(&[1_100_000usize, 1_100_000, 2_500_000, 17_000_000]);
            if r.chance(0.5) { Value::String("x".repeat(n).into()) } else { Value::Bytes(std::sync::Arc::from(vec![7u8; n])) }
        } else if r.chance(0.7) {
            vals::random_scalar(r)
        } else {
            vals::random(r, 2)
        }
    };
    let push = |events: &mut Vec<(MOp, u8)>, m: &mut Model, op: MOp, via: u8| {
        op.apply(m);
        events.push((op, via));
    };
    let weights: [u32; 14] = if logged_only { [10, 8, 10, 6, 4, 4, 4, 3, 3, 0, 0, 0, 0, 2] } else { [10, 8, 10, 6, 4, 4, 4, 3, 3, 3, 2, 4, 3, 2] };
    match r.weighted(&weights) {
        0 => {
            kinds.insert("create_node");
            let nl = r.below(3);
            let labels: Vec<&str> = (0..nl).map(|_| *r.pick(LABELS)).collect::<BTreeSet<_>>().into_iter().collect();
            let id = db.create_node(&labels).as_u64();
            hist.push(format!("create_node({labels:?})->{id}"));
            if m.nodes.contains_key(&id) {
                hist.push(format!("ID COLLISION node {id}"));
            }
            push(events, m, MOp::CreateNode { id, labels: labels.iter().map(|s| (*s).to_string()).collect() }, 0);
        }
        1 => {
            kinds.insert("create_node_with_props");
            let labels = vec![*r.pick(LABELS)];
            let props: Vec<(&str, Value)> = KEYS.iter().take(1 + r.below(2)).map(|k| (*k, val(r))).collect();
            let id = db.create_node_with_props(&labels, props.iter().map(|(k, v)| (*k, v.clone()))).as_u64();
            hist.push(format!("create_node_with_props({labels:?},..)->{id}"));
            push(events, m, MOp::CreateNode { id, labels: labels.iter().map(|s| (*s).to_string()).collect() }, 0);
            for (k, v) in props {
                push(events, m, MOp::SetNodeProp { id, k: k.to_string(), v }, 0);
            }
        }
        2 => {
            kinds.insert("create_edge");
            if live.is_empty() {
                return;
            }
            let (s, t) = (*r.pick(&live), *r.pick(&live));
            let ty = *r.pick(&["R", "S"]);
            if r.chance(0.5) {
                let id = db.create_edge(NodeId::new(s), NodeId::new(t), ty).as_u64();
                hist.push(format!("create_edge({s},{t},{ty})->{id}"));
                push(events, m, MOp::CreateEdge { id, src: s, dst: t, ty: ty.to_string() }, 0);
            } else {
                let v = val(r);
                let id = db.create_edge_with_props(NodeId::new(s), NodeId::new(t), ty, [("w", v.clone())]).as_u64();
                hist.push(format!("create_edge_with_props({s},{t},{ty})->{id}"));
                push(events, m, MOp::CreateEdge { id, src: s, dst: t, ty: ty.to_string() }, 0);
                push(events, m, MOp::SetEdgeProp { id, k: "w".into(), v }, 0);
            }
        }
        3 => {
            kinds.insert("set_node_property");
            if live.is_empty() {
                return;
            }
            let id = *r.pick(&live);
            let k = *r.pick(KEYS);
            let v = val(r);
            db.set_node_property(NodeId::new(id), k, v.clone());
            hist.push(format!("set_node_property({id},{k},{})", vals::show(&v).chars().take(80).collect::<String>()));
            push(events, m, MOp::SetNodeProp { id, k: k.to_string(), v }, 0);
        }
        4 => {
            kinds.insert("set_edge_property");
            if elive.is_empty() {
                return;
            }
            let id = *r.pick(&elive);
            let v = val(r);
            db.set_edge_property(EdgeId::new(id), "w", v.clone());
            hist.push(format!("set_edge_property({id},w,{})", vals::show(&v).chars().take(80).collect::<String>()));
            push(events, m, MOp::SetEdgeProp { id, k: "w".into(), v }, 0);
        }
        5 => {
            kinds.insert("delete_edge");
            if elive.is_empty() {
                return;
            }
            let id = *r.pick(&elive);
            db.delete_edge(EdgeId::new(id));
            hist.push(format!("delete_edge({id})"));
            push(events, m, MOp::DeleteEdge { id }, 0);
        }
        6 => {
            kinds.insert("delete_node");
            let cand: Vec<u64> = live.iter().copied().filter(|n| m.out_edges(*n).is_empty() && m.in_edges(*n).is_empty()).collect();
            if cand.is_empty() {
                return;
            }
            let id = *r.pick(&cand);
            db.delete_node(NodeId::new(id));
            hist.push(format!("delete_node({id})"));
            push(events, m, MOp::DeleteNode { id }, 0);
        }
        7 => {
            kinds.insert("add_node_label");
            if live.is_empty() {
                return;
            }
            let id = *r.pick(&live);
            let l = *r.pick(LABELS);
            if db.add_node_label(NodeId::new(id), l) {
                push(events, m, MOp::AddLabel { id, l: l.to_string() }, 0);
            }
            hist.push(format!("add_node_label({id},{l})"));
        }
        8 => {
            kinds.insert("remove_node_label");
            if live.is_empty() {
                return;
            }
            let id = *r.pick(&live);
            let l = *r.pick(LABELS);
            if db.remove_node_label(NodeId::new(id), l) {
                push(events, m, MOp::RemoveLabel { id, l: l.to_string() }, 0);
            }
            hist.push(format!("remove_node_label({id},{l})"));
        }
        9 => {
            kinds.insert("remove_node_property");
            if live.is_empty() {
                return;
            }
            let id = *r.pick(&live);
            let k = *r.pick(KEYS);
            if db.remove_node_property(NodeId::new(id), k) {
                push(events, m, MOp::RemoveNodeProp { id, k: k.to_string() }, 2);
            }
            hist.push(format!("remove_node_property({id},{k})"));
        }
        10 => {
            kinds.insert("remove_edge_property");
            if elive.is_empty() {
                return;
            }
            let id = *r.pick(&elive);
            if db.remove_edge_property(EdgeId::new(id), "w") {
                push(events, m, MOp::RemoveEdgeProp { id, k: "w".into() }, 2);
            }
            hist.push(format!("remove_edge_property({id},w)"));
        }
        11 => {
            // mutating statement through a session (auto-commit or explicit transaction)
            kinds.insert("session_insert");
            let mut s = db.session();
            let explicit = r.chance(0.5);
            if explicit {
                let _ = s.begin_tx();
            }
            let uid = 1000 + r.below(100_000) as i64;
            let before: BTreeSet<u64> = dump(db).nodes.keys().copied().collect();
            let ok = s.execute(&format!("INSERT (:S {{suid: {uid}}})")).is_ok();
            if explicit {
                let _ = s.commit();
            }
            if ok {
                let after = dump(db);
                for (id, n) in &after.nodes {
                    if !before.contains(id) {
                        push(events, m, MOp::CreateNode { id: *id, labels: n.labels.iter().cloned().collect() }, 1);
                        for (k, v) in &n.props {
                            push(events, m, MOp::SetNodeProp { id: *id, k: k.clone(), v: v.clone() }, 1);
                        }
                    }
                }
            }
            hist.push(format!("session INSERT (:S {{suid:{uid}}}) explicit_tx={explicit}"));
        }
        12 => {
            kinds.insert("session_set");
            if live.is_empty() {
                return;
            }
            // address a node by a unique property it certainly has: use id() if available
            let id = *r.pick(&live);
            let s = db.session();
            let v = r.range(0, 1000);
            let q = format!("MATCH (n) WHERE id(n) = {id} SET n.sv = {v}");
            if s.execute(&q).is_ok() {
                // only count it if it really happened
                if db.get_node(NodeId::new(id)).and_then(|n| n.properties.get(&"sv".into()).cloned()) == Some(Value::Int64(v)) {
                    push(events, m, MOp::SetNodeProp { id, k: "sv".into(), v: Value::Int64(v) }, 1);
                }
            }
            hist.push(format!("session {q}"));
        }
        _ => {
            kinds.insert("batch_create_nodes");
            let n = 1 + r.below(3);
            let vecs: Vec<Vec<f32>> = (0..n).map(|i| vec![i as f32, 1.0]).collect();
            let ids = db.batch_create_nodes("V", "emb", vecs.clone());
            hist.push(format!("batch_create_nodes(V,emb,{n})"));
            for (id, v) in ids.iter().zip(vecs) {
                push(events, m, MOp::CreateNode { id: id.as_u64(), labels: vec!["V".into()] }, 0);
                push(events, m, MOp::SetNodeProp { id: id.as_u64(), k: "emb".into(), v: vals::vector(&v) }, 0);
            }
        }
    }
}

pub fn open(path: &std::path::Path, mode: DurabilityMode) -> Result<GrafeoDB, String> {
    match catch(|| GrafeoDB::with_config(Config::persistent(path).with_wal_durability(mode))) {
        Ok(Ok(db)) => Ok(db),
        Ok(Err(e)) => Err(format!("error:{}", e.to_string().lines().next().unwrap_or(""))),
        Err(p) => Err(format!("panic@{}", p.site)),
    }
}

fn run_history(rep: &mut Report, rules: Rules, seed: u64, case: u64, max_ops: usize) {
    let mut r = Rng::new(seed, "C05", case);
    let dir = scratch_dir("c05");
    let path = dir.join("db");
    let mode = pick_mode(&mut r);
    let tiny_log = r.chance(0.25);
    hooks::WAL_MAX_LOG_SIZE.store(if tiny_log { *r.pick(&[1u64, 64, 200, 1000]) } else { 0 }, Ordering::SeqCst);
    hooks::RECORD_EVENTS.store(true, Ordering::SeqCst);
    hooks::take_events();
    let mut m = Model::default();
    let mut events: Vec<Logged> = Vec::new();
    let mut hist: Vec<String> = vec![format!("mode={} tiny_log={tiny_log}", mode_name(&mode))];
    let mut kinds: BTreeSet<&'static str> = BTreeSet::new();
    let cycles = 1 + r.below(4);
    let mut had_ckpt_or_rot_before_reopen = false;
    let mut reopens = 0;
    'outer: for cycle in 0..cycles {
        let db = match open(&path, mode.clone()) {
            Ok(db) => db,
            Err(e) => {
                rep.deviation(&format!("reopen:open_failed|{}", e.split(':').next().unwrap_or("")), json!({"error": e, "history": hist}));
                break 'outer;
            }
        };
        hooks::take_events();
        if cycle > 0 {
            reopens += 1;
            rep.eval();
            rep.count("reopens", 1);
            rep.count(&format!("reopens.mode.{}", mode_name(&mode)), 1);
            let obs = dump(&db);
            let spec = predict_spec(&events);
            let dev = predict(&events, rules);
            if let Some((kind, d)) = diff_kind(&obs, &spec) {
                if diff_kind(&obs, &dev).is_none() {
                    // explained by the open rules: name the ones that matter
                    for (i, id) in [(1, "C05-U1"), (2, "C05-U2"), (3, "C05-U3"), (4, "C05-U4")] {
                        let active = match i {
                            1 => rules.u1,
                            2 => rules.u2,
                            3 => rules.u3,
                            _ => rules.u4,
                        };
                        if active && diff_kind(&predict(&events, rules.without(i)), &dev).is_some() {
                            rep.known_rule(id, &format!("reopen {kind} mode={}", mode_name(&mode)));
                        }
                    }
                } else {
                    let (k2, d2) = diff_kind(&obs, &dev).unwrap();
                    rep.deviation(
                        &format!("reopen:{kind}|vs_rules:{k2}"),
                        json!({"mode": mode_name(&mode), "vs_spec": d, "vs_known_rules": d2, "history": hist, "case": case}),
                    );
                    break 'outer;
                }
            } else if diff_kind(&spec, &dev).is_some() {
                // the engine did better than the open findings predict
                rep.count("reopens_better_than_rules_predict", 1);
                break 'outer;
            }
            // the history continues from what is really there (plus the invisible orphan values
            // the rules predict); the files on disk are unchanged, so the event list stays valid
            m = obs;
            m.orphan_node_props = dev.orphan_node_props.clone();
            m.orphan_edge_props = dev.orphan_edge_props.clone();
        }
        let nops = 3 + r.below(max_ops);
        for _ in 0..nops {
            let mut pushed: Vec<(MOp, u8)> = Vec::new();
            let kind = match r.below(20) {
                0 => {
                    let _ = db.wal_checkpoint();
                    hist.push("wal_checkpoint()".into());
                    kinds.insert("wal_checkpoint");
                    had_ckpt_or_rot_before_reopen = true;
                    StepKind::Checkpoint
                }
                1 => {
                    if let Some(w) = db.wal() {
                        let _ = w.rotate();
                        hist.push("wal.rotate()".into());
                        kinds.insert("rotate");
                    }
                    StepKind::Other
                }
                2 => {
                    if let Some(w) = db.wal() {
                        let _ = w.sync();
                        hist.push("wal.sync()".into());
                        kinds.insert("sync");
                    }
                    StepKind::Other
                }
                _ => {
                    let ids_before: BTreeSet<u64> = m.nodes.keys().copied().collect();
                    let e_before: BTreeSet<u64> = m.edges.keys().copied().collect();
                    mutate(&db, &mut m, &mut pushed, &mut r, &mut hist, &mut kinds);
                    // identifiers handed out never collide with existing ones
                    for (op, _) in &pushed {
                        if let MOp::CreateNode { id, .. } = op {
                            if ids_before.contains(id) {
                                rep.deviation("ids:node_id_collides_with_existing", json!({"id": id, "history": hist}));
                            }
                        }
                        if let MOp::CreateEdge { id, .. } = op {
                            if e_before.contains(id) {
                                rep.deviation("ids:edge_id_collides_with_existing", json!({"id": id, "history": hist}));
                            }
                        }
                    }
                    StepKind::Mutation
                }
            };
            let evs = hooks::take_events();
            let rots = evs.iter().filter(|e| e.0 == "wal.rotate").count() as u64;
            if rots > 0 {
                had_ckpt_or_rot_before_reopen = true;
                rep.count("rotations_observed", rots);
            }
            if !absorb(&mut events, pushed, &evs, kind) {
                rep.count("histories_abandoned_record_count_unexpected", 1);
                hist.push(format!("ABANDONED: unexpected number of wal.record events for {kind:?}: {evs:?}"));
                let _ = db.close();
                break 'outer;
            }
        }
        // the live state must equal the model before closing
        if let Some((k, d)) = diff_kind(&dump(&db), &m) {
            rep.deviation(&format!("live:{k}"), json!({"detail": d, "history": hist}));
            break 'outer;
        }
        match catch(|| db.close()) {
            Ok(Ok(())) => {}
            Ok(Err(e)) => {
                rep.deviation("close:error", json!({"error": e.to_string(), "history": hist}));
                break 'outer;
            }
            Err(p) => {
                rep.deviation(&format!("close:panic@{}", p.site), json!({"history": hist}));
                break 'outer;
            }
        }
        let evs = hooks::take_events();
        if !absorb(&mut events, Vec::new(), &evs, StepKind::Close) {
            rep.count("histories_abandoned_record_count_unexpected", 1);
            break 'outer;
        }
        hist.push("close()".into());
        drop(db);
    }
    hooks::WAL_MAX_LOG_SIZE.store(0, Ordering::SeqCst);
    hooks::RECORD_EVENTS.store(false, Ordering::SeqCst);
    if reopens >= 1 && had_ckpt_or_rot_before_reopen && kinds.len() >= 3 {
        rep.nontrivial(hash_str(&hist.join(";")));
    }
    for k in &kinds {
        rep.count(&format!("op.{k}"), 1);
    }
    if case < 2 {
        rep.sample(json!({"case": case, "history": hist.iter().take(25).collect::<Vec<_>>()}));
    }
    let _ = std::fs::remove_dir_all(&dir);
}

/// Saved-copy continuation: a database written by `save()` (whose log lists the nodes in the
/// source's iteration order, not in id order) is opened, written to, closed and reopened twice.
/// Only logged direct-API calls are used and no checkpoint / rotation happens, so no deviation
/// rule applies: every reopen must give back the model exactly and fresh ids must be fresh.
fn saved_copy_history(rep: &mut Report, seed: u64, case: u64) {
    let mut r = Rng::new(seed, "C05.saved", case);
    let dir = scratch_dir("c05s");
    let mut m = Model::default();
    let mut hist: Vec<String> = vec!["source: in-memory".into()];
    let mut kinds: BTreeSet<&'static str> = BTreeSet::new();
    let src = GrafeoDB::new_in_memory();
    let mut sink = Vec::new();
    for _ in 0..(20 + r.below(60)) {
        mutate_opt(&src, &mut m, &mut sink, &mut r, &mut hist, &mut kinds, true);
    }
    let path = dir.join("copy");
    let res: Result<(), String> = (|| {
        src.save(&path).map_err(|e| format!("save:error:{e}"))?;
        hist.push("save(); open(copy)".into());
        for cycle in 0..3 {
            let db = open(&path, DurabilityMode::Sync).map_err(|e| format!("open_failed:{e}"))?;
            rep.eval();
            rep.count("saved_copy.reopens", 1);
            if let Some((k, d)) = diff_kind(&dump(&db), &m) {
                return Err(format!("reopen:{k}|cycle={cycle}|{d}"));
            }
            for _ in 0..(3 + r.below(8)) {
                let ids_before: BTreeSet<u64> = m.nodes.keys().copied().collect();
                let e_before: BTreeSet<u64> = m.edges.keys().copied().collect();
                let mut pushed = Vec::new();
                mutate_opt(&db, &mut m, &mut pushed, &mut r, &mut hist, &mut kinds, true);
                for (op, _) in &pushed {
                    match op {
                        MOp::CreateNode { id, .. } if ids_before.contains(id) => return Err(format!("ids:node_id_collides_with_existing|cycle={cycle}|id={id}")),
                        MOp::CreateEdge { id, .. } if e_before.contains(id) => return Err(format!("ids:edge_id_collides_with_existing|cycle={cycle}|id={id}")),
                        _ => {}
                    }
                }
            }
            if let Some((k, d)) = diff_kind(&dump(&db), &m) {
                return Err(format!("live:{k}|cycle={cycle}|{d}"));
            }
            db.close().map_err(|e| format!("close:error:{e}"))?;
            hist.push("close(); open(copy)".into());
        }
        Ok(())
    })();
    if let Err(e) = res {
        let mut parts = e.splitn(3, '|');
        let kind = parts.next().unwrap_or("").to_string();
        rep.deviation(&format!("saved_copy:{}", kind.split(':').take(2).collect::<Vec<_>>().join(":")), json!({"what": e, "history": hist.iter().rev().take(40).collect::<Vec<_>>(), "case": case}));
    } else if kinds.len() >= 3 {
        rep.nontrivial(hash_str(&format!("saved:{}", hist.join(";"))));
    }
    let _ = std::fs::remove_dir_all(&dir);
}

pub fn run(tier: Tier, seed: u64) -> ! {
    let mut rep = Report::new("C05", tier, seed, "exploration");
    rep.rule = "random histories on an on-disk GrafeoDB: every mutating direct-API call (create/delete node and edge, with props, set/remove property with every value type, add/remove label, batch_create_nodes), mutating statements through sessions (auto-commit and explicit transactions), interleaved with wal_checkpoint(), wal().rotate(), wal().sync(), size-triggered rotation (threshold override hook from 'every record' upward) and 1-4 close/reopen cycles, under each durability mode (sync, batch with tiny thresholds, adaptive, no-sync). After every reopen the dump is compared with the persistent model; new identifiers must not collide. non-trivial = history with >= 1 reopen preceded by a checkpoint or rotation and >= 3 op kinds; distinct by hash of the operation list".into();
    let rules = Rules::from_findings(&rep.findings);
    rep.extra.insert("deviation_rules_on".into(), json!(format!("{rules:?}")));
    let n = tier.pick(500, 4_000);
    for case in 0..n {
        run_history(&mut rep, rules, seed, case, tier.pick(25, 60));
    }
    for case in 0..tier.pick(150, 1_500) {
        saved_copy_history(&mut rep, seed, case);
    }
    rep.assumptions = vec![
        "local filesystem of the sandbox; no claim about other filesystems".into(),
        "nodes are only deleted when they have no edges (dangling endpoints are C14's validate() business)".into(),
    ];
    rep.finish()
}
