//! Evidence writer, known-findings matcher, verdict and exit code.
//!
//! Every monitor reports a *deviation* as (signature, detail). The signature is a stable,
//! seed-independent identification of what failed (matrix cell, deviation rule, reduced
//! witness skeleton, panic site). `known_findings.json` lists, per open finding, the exact
//! signatures it covers. A deviation whose signature is listed under an open finding prints
//! a KNOWN-FINDING line; anything else is a VIOLATION.

use serde_json::{Map, Value, json};
use std::collections::{BTreeMap, BTreeSet, HashSet};
use std::path::PathBuf;
use std::time::Instant;

pub const VERIF_ROOT: &str = "/verif";

/// Where evidence and replay files go: /verif, or $VH_OUT when a check is run against a
/// scratch copy of the repository (seeded-change validation), so that the registered evidence
/// is never overwritten by such a run.
pub fn out_root() -> String {
    std::env::var("VH_OUT").unwrap_or_else(|_| VERIF_ROOT.to_string())
}

#[derive(Clone, Debug)]
pub struct Finding {
    pub id: String,
    pub property: String,
    pub status: String,
    pub what: String,
    pub signatures: Vec<String>,
}

pub struct Findings {
    pub all: Vec<Finding>,
}

impl Findings {
    pub fn load() -> Self {
        let mut all = Vec::new();
        let mut files = vec![format!("{VERIF_ROOT}/known_findings.json")];
        // per-property staging files (merged into known_findings.json at integration time)
        if let Ok(rd) = std::fs::read_dir(format!("{VERIF_ROOT}/known_findings.d")) {
            let mut extra: Vec<String> = rd
                .filter_map(|e| e.ok())
                .map(|e| e.path().display().to_string())
                .filter(|p| p.ends_with(".json"))
                .collect();
            extra.sort();
            files.extend(extra);
        }
        for p in files {
            let Ok(s) = std::fs::read_to_string(&p) else { continue };
            let v: Value = serde_json::from_str(&s).unwrap_or_else(|e| panic!("{p} must be valid JSON: {e}"));
            for e in v["findings"].as_array().cloned().unwrap_or_default() {
                all.push(Finding {
                    id: e["id"].as_str().unwrap_or("").to_string(),
                    property: e["property"].as_str().unwrap_or("").to_string(),
                    status: e["status"].as_str().unwrap_or("").to_string(),
                    what: e["what"].as_str().unwrap_or("").to_string(),
                    signatures: e["match"]["signatures"]
                        .as_array()
                        .map(|a| a.iter().filter_map(|x| x.as_str().map(String::from)).collect())
                        .unwrap_or_default(),
                });
            }
        }
        // development aid for validating a repair before it is recorded: treat the listed
        // finding ids as fixed (their deviation rules switch off, their signatures stop matching)
        if let Ok(close) = std::env::var("VH_CLOSE") {
            let ids: Vec<&str> = close.split(',').map(str::trim).collect();
            for f in &mut all {
                if ids.contains(&f.id.as_str()) {
                    f.status = "fixed".to_string();
                }
            }
        }
        Findings { all }
    }
    /// Open finding of `prop` that lists `sig` exactly.
    pub fn lookup(&self, prop: &str, sig: &str) -> Option<&Finding> {
        self.all
            .iter()
            .find(|f| f.property == prop && f.status == "open" && f.signatures.iter().any(|s| s == sig))
    }
    /// Is the named rule (finding id) open? Deviation rules of the reference models are
    /// switched on only by an open finding of that id.
    pub fn rule_open(&self, id: &str) -> bool {
        self.all.iter().any(|f| f.id == id && f.status == "open")
    }
    pub fn open_for(&self, prop: &str) -> Vec<&Finding> {
        self.all.iter().filter(|f| f.property == prop && f.status == "open").collect()
    }
}

#[derive(Clone, Copy, PartialEq, Eq, Debug)]
pub enum Tier {
    Quick,
    Thorough,
}

impl Tier {
    pub fn name(self) -> &'static str {
        match self {
            Tier::Quick => "quick",
            Tier::Thorough => "thorough",
        }
    }
    /// choose by tier
    pub fn pick<T>(self, q: T, t: T) -> T {
        match self {
            Tier::Quick => q,
            Tier::Thorough => t,
        }
    }
}

pub struct Report {
    pub prop: String,
    pub tier: Tier,
    pub seed: u64,
    pub level: &'static str,
    start: Instant,
    pub evaluations: u64,
    distinct: HashSet<u64>,
    pub rule: String,
    samples: Vec<Value>,
    pub max_samples: usize,
    pub extra: Map<String, Value>,
    pub assumptions: Vec<String>,
    counters: BTreeMap<String, u64>,
    violations: BTreeMap<String, (u64, Value)>,
    known: BTreeMap<String, (u64, String, String)>,
    inconclusive: Vec<String>,
    pub findings: Findings,
    seen_sigs: BTreeSet<String>,
}

impl Report {
    pub fn new(prop: &str, tier: Tier, seed: u64, level: &'static str) -> Self {
        Report {
            prop: prop.to_string(),
            tier,
            seed,
            level,
            start: Instant::now(),
            evaluations: 0,
            distinct: HashSet::new(),
            rule: String::new(),
            samples: Vec::new(),
            max_samples: 6,
            extra: Map::new(),
            assumptions: Vec::new(),
            counters: BTreeMap::new(),
            violations: BTreeMap::new(),
            known: BTreeMap::new(),
            inconclusive: Vec::new(),
            findings: Findings::load(),
            seen_sigs: BTreeSet::new(),
        }
    }
    pub fn eval(&mut self) {
        self.evaluations += 1;
    }
    pub fn evals(&mut self, n: u64) {
        self.evaluations += n;
    }
    /// record one distinct non-trivial case by its structural hash
    pub fn nontrivial(&mut self, h: u64) {
        self.distinct.insert(h);
    }
    pub fn sample(&mut self, v: Value) {
        if self.samples.len() < self.max_samples {
            self.samples.push(v);
        }
    }
    pub fn count(&mut self, key: &str, n: u64) {
        *self.counters.entry(key.to_string()).or_insert(0) += n;
    }
    pub fn counter(&self, key: &str) -> u64 {
        self.counters.get(key).copied().unwrap_or(0)
    }
    pub fn inconclusive(&mut self, why: &str) {
        self.inconclusive.push(why.to_string());
    }
    pub fn elapsed(&self) -> f64 {
        self.start.elapsed().as_secs_f64()
    }
    pub fn n_violations(&self) -> usize {
        self.violations.len()
    }
    /// Report a deviation from the specification. Routed to a known finding if its
    /// signature is listed under an open one, else it is a violation.
    pub fn deviation(&mut self, sig: &str, detail: Value) {
        self.seen_sigs.insert(sig.to_string());
        if let Some(f) = self.findings.lookup(&self.prop, sig) {
            let e = self.known.entry(f.id.clone()).or_insert((0, f.what.clone(), sig.to_string()));
            e.0 += 1;
        } else {
            let e = self.violations.entry(sig.to_string()).or_insert((0, detail));
            e.0 += 1;
        }
    }
    /// A deviation explained by a named deviation rule of the reference model (scheme 2).
    pub fn known_rule(&mut self, rule_id: &str, example: &str) {
        let what = self
            .findings
            .all
            .iter()
            .find(|f| f.id == rule_id)
            .map(|f| f.what.clone())
            .unwrap_or_default();
        let e = self.known.entry(rule_id.to_string()).or_insert((0, what, example.to_string()));
        e.0 += 1;
    }

    pub fn finish(mut self) -> ! {
        let wall = self.start.elapsed().as_secs_f64();
        let mut coverage = Map::new();
        coverage.insert("evaluations".into(), json!(self.evaluations));
        coverage.insert("distinct_nontrivial".into(), json!(self.distinct.len()));
        coverage.insert("rule".into(), json!(self.rule));
        coverage.insert("samples".into(), Value::Array(self.samples.clone()));
        coverage.insert("counters".into(), json!(self.counters));
        coverage.insert(
            "known_findings_observed".into(),
            json!(self.known.iter().map(|(k, v)| (k.clone(), v.0)).collect::<BTreeMap<_, _>>()),
        );
        coverage.insert("inconclusive".into(), json!(self.inconclusive));
        for (k, v) in std::mem::take(&mut self.extra) {
            coverage.insert(k, v);
        }
        // sanitizer overlay summaries written by scripts/overlay.sh just before this run
        let mut overlays = Vec::new();
        if let Ok(rd) = std::fs::read_dir(format!("{VERIF_ROOT}/evidence")) {
            for e in rd.flatten() {
                let name = e.file_name().to_string_lossy().to_string();
                if name.starts_with(&format!(".overlay_{}_", self.prop)) {
                    if let Ok(t) = std::fs::read_to_string(e.path()) {
                        if let Ok(v) = serde_json::from_str::<Value>(&t) {
                            overlays.push(v);
                        }
                    }
                    let _ = std::fs::remove_file(e.path());
                }
            }
        }
        if !overlays.is_empty() {
            coverage.insert("sanitizer_overlays".into(), Value::Array(overlays));
        }
        // listed open findings that did not fire in this run (information only)
        let mut silent = Vec::new();
        for f in self.findings.open_for(&self.prop) {
            if !self.known.contains_key(&f.id) {
                silent.push(f.id.clone());
            }
        }
        coverage.insert("open_findings_not_observed".into(), json!(silent));

        // violations -> replay files
        let mut vio_lines = Vec::new();
        if !self.violations.is_empty() {
            let dir = PathBuf::from(format!("{}/replays/{}", out_root(), self.prop));
            let _ = std::fs::create_dir_all(&dir);
            for (sig, (n, detail)) in &self.violations {
                let h = crate::rng::hash_str(sig);
                let p = dir.join(format!("{h:016x}.json"));
                let body = json!({
                    "property": self.prop, "tier": self.tier.name(), "seed": self.seed,
                    "signature": sig, "occurrences": n, "detail": detail,
                });
                let _ = std::fs::write(&p, serde_json::to_string_pretty(&body).unwrap());
                vio_lines.push((sig.clone(), p));
            }
        }
        let ev = json!({
            "property_id": self.prop,
            "tier": self.tier.name(),
            "seed": self.seed,
            "level": self.level,
            "coverage": Value::Object(coverage),
            "assumptions": self.assumptions,
            "wall_s": wall,
            "violations": self.violations.len(),
        });
        let evdir = format!("{}/evidence", out_root());
        let _ = std::fs::create_dir_all(&evdir);
        let evpath = format!("{evdir}/{}.json", self.prop);
        std::fs::write(&evpath, serde_json::to_string_pretty(&ev).unwrap()).expect("write evidence");

        println!(
            "SUMMARY property={} tier={} seed={} evaluations={} distinct_nontrivial={} wall_s={:.1}",
            self.prop,
            self.tier.name(),
            self.seed,
            self.evaluations,
            self.distinct.len(),
            wall
        );
        for (k, v) in &self.counters {
            println!("  counter {k} = {v}");
        }
        for (id, (n, what, ex)) in &self.known {
            println!("KNOWN-FINDING: property={} {} ({}x, e.g. {}) {}", self.prop, id, n, ex, what);
        }
        for id in &silent {
            println!("INFO: property={} open finding {} was not observed in this run", self.prop, id);
        }
        for (sig, p) in &vio_lines {
            println!("VIOLATION property={} replay={} signature={}", self.prop, p.display(), sig);
        }
        if !vio_lines.is_empty() {
            std::process::exit(1);
        }
        if self.evaluations == 0 || self.distinct.len() < 2 {
            self.inconclusive.push("observed too little (evaluations==0 or <2 distinct non-trivial cases)".into());
        }
        if !self.inconclusive.is_empty() {
            for w in &self.inconclusive {
                println!("INCONCLUSIVE property={} reason={}", self.prop, w);
            }
            std::process::exit(2);
        }
        std::process::exit(0);
    }
}
