//! Small helpers: scratch directories, panic capture.
use std::path::PathBuf;
use std::sync::atomic::{AtomicU64, Ordering};

static CTR: AtomicU64 = AtomicU64::new(0);

/// Fresh scratch directory (removed by the caller). Lives under $VH_SCRATCH or the
/// system temp dir, only for the duration of one command.
pub fn scratch_dir(tag: &str) -> PathBuf {
    let base = std::env::var("VH_SCRATCH").map(PathBuf::from).unwrap_or_else(|_| std::env::temp_dir());
    let p = base.join(format!("vh-{}-{}-{}", tag, std::process::id(), CTR.fetch_add(1, Ordering::Relaxed)));
    let _ = std::fs::remove_dir_all(&p);
    std::fs::create_dir_all(&p).expect("create scratch dir");
    p
}

#[derive(Debug, Clone)]
pub struct Panic {
    /// stable site: "<file relative to /repo>::<function>" of the innermost in-repo frame
    /// (line numbers deliberately left out so unrelated edits do not move the signature)
    pub site: String,
    /// file:line of the innermost in-repo frame (for humans)
    pub at: String,
    pub msg: String,
}

/// Run `f`, converting a panic into Err(Panic).
pub fn catch<T>(f: impl FnOnce() -> T) -> Result<T, Panic> {
    QUIET.with(|q| q.set(q.get() + 1));
    let r = std::panic::catch_unwind(std::panic::AssertUnwindSafe(f));
    QUIET.with(|q| q.set(q.get() - 1));
    match r {
        Ok(v) => Ok(v),
        Err(e) => {
            let msg = if let Some(s) = e.downcast_ref::<&str>() {
                (*s).to_string()
            } else if let Some(s) = e.downcast_ref::<String>() {
                s.clone()
            } else {
                "panic".to_string()
            };
            let (site, at) = LAST_PANIC.with(|l| l.borrow().clone());
            Err(Panic { site, at, msg })
        }
    }
}

thread_local! {
    pub static QUIET: std::cell::Cell<u32> = const { std::cell::Cell::new(0) };
    pub static LAST_PANIC: std::cell::RefCell<(String, String)> = const { std::cell::RefCell::new((String::new(), String::new())) };
}

/// Innermost frame whose source is under /repo/: (site, file:line)
fn repo_frame(bt: &str) -> Option<(String, String)> {
    let lines: Vec<&str> = bt.lines().collect();
    for i in 1..lines.len() {
        let l = lines[i].trim_start();
        if let Some(rest) = l.strip_prefix("at ").and_then(|x| x.strip_prefix(repo_root().as_str())) {
            // previous line: "  N: symbol"
            let sym = lines[i - 1].trim_start();
            let sym = sym.split_once(": ").map_or(sym, |x| x.1);
            let sym = sym.split('<').next().unwrap_or(sym);
            let sym = sym.rsplit("::").next().unwrap_or(sym);
            let mut parts = rest.rsplitn(3, ':');
            let _col = parts.next();
            let line = parts.next().unwrap_or("");
            let file = parts.next().unwrap_or(rest);
            return Some((format!("{file}::{sym}"), format!("{file}:{line}")));
        }
    }
    None
}

/// Install a panic hook that records the innermost in-repo frame of the last panic per
/// thread; quiet inside `catch`, loud (harness bug) outside.
pub fn install_panic_hook() {
    std::panic::set_hook(Box::new(|info| {
        let quiet = QUIET.with(|q| q.get()) > 0;
        let bt = std::backtrace::Backtrace::force_capture().to_string();
        let loc = info.location().map(|l| format!("{}:{}", strip_repo(l.file()), l.line())).unwrap_or_default();
        let frame = repo_frame(&bt).unwrap_or_else(|| (loc.clone(), loc.clone()));
        LAST_PANIC.with(|l| *l.borrow_mut() = frame);
        if !quiet || std::env::var("VH_PANIC_VERBOSE").is_ok() {
            eprintln!("panic: {info}");
            if !quiet || std::env::var("VH_BT").is_ok() {
                eprintln!("{bt}");
            }
        }
    }));
}

pub fn strip_repo(p: &str) -> &str {
    p.strip_prefix(repo_root().as_str()).unwrap_or(p)
}

/// Root of the repository the harness was built against, with a trailing slash: "/repo/", or
/// the scratch worktree named by $VH_REPO when a check is run against a seeded change
/// (scripts/check_against.sh), so that panic sites read the same in both.
pub fn repo_root() -> &'static String {
    static ROOT: std::sync::OnceLock<String> = std::sync::OnceLock::new();
    ROOT.get_or_init(|| {
        let mut r = std::env::var("VH_REPO").unwrap_or_else(|_| "/repo".to_string());
        if !r.ends_with('/') {
            r.push('/');
        }
        r
    })
}
