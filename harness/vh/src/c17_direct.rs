//! C17 — direct monitors of single components: morsel tiling, parallel source partitions, the
//! scheduler's exactly-once hand-out, the crate's merge functions on explicit partitions,
//! ExternalSort, PartitionedState against a HashMap model, spill file lifecycle.

use super::refm::*;
use super::runm::{chunk_rows, chunks_rows, make_chunk, make_chunks};
use super::{Ctx, Ev};
use crate::report::Tier;
use crate::rng::{Rng, hash_str};
use crate::util::{catch, scratch_dir};
use crate::vals;
use grafeo_common::memory::buffer::PressureLevel;
use grafeo_common::types::Value;
use grafeo_core::execution::operators::push as pushops;
use grafeo_core::execution::parallel as par;
use grafeo_core::execution::spill::{self, ExternalSort, PartitionedState, SpillManager};
use grafeo_core::execution::{DataChunk, PushOperator, Sink, Source};
use serde_json::json;
use std::collections::BTreeMap;
use std::io::{Read, Write};
use std::sync::Arc;

fn list_dir(d: &std::path::Path) -> Vec<String> {
    let mut v: Vec<String> = std::fs::read_dir(d)
        .map(|rd| rd.filter_map(|e| e.ok()).map(|e| e.file_name().to_string_lossy().to_string()).collect())
        .unwrap_or_default();
    v.sort();
    v
}

fn nontrivial(ctx: &mut Ctx, s: &str) {
    ctx.ev.push(Ev::Nontrivial(hash_str(s)));
}

// ---------------------------------------------------------------------------------------------
// generate_morsels tiles [0, n) exactly once
// ---------------------------------------------------------------------------------------------

fn check_tiling(ms: &[par::Morsel], n: usize, size: usize, sid: usize) -> Option<&'static str> {
    if n == 0 {
        return if ms.is_empty() { None } else { Some("morsels_for_empty_input") };
    }
    if ms.is_empty() {
        return Some("no_morsels");
    }
    let mut pos = 0;
    for (i, m) in ms.iter().enumerate() {
        if m.start_row != pos {
            return Some(if m.start_row > pos { "gap" } else { "overlap" });
        }
        if m.end_row <= m.start_row {
            return Some("empty_morsel");
        }
        if m.row_count() > size {
            return Some("morsel_larger_than_size");
        }
        if i + 1 < ms.len() && m.row_count() != size {
            return Some("short_inner_morsel");
        }
        if m.id != i {
            return Some("id_not_sequential");
        }
        if m.source_id != sid {
            return Some("wrong_source_id");
        }
        pos = m.end_row;
    }
    if pos != n { Some("does_not_end_at_n") } else { None }
}

pub fn morsel_grid(ctx: &mut Ctx, tier: Tier, seed: u64) {
    let mut rng = Rng::new(seed, "c17.morsels", 0);
    let mut ns: Vec<usize> = vec![0, 1, 2, 3, 7, 1023, 1024, 1025, 2047, 2048, 2049, 16383, 16384, 16385, 32768, 65535, 65536, 65537, 100_000, 1_000_003];
    for _ in 0..tier.pick(20, 150) {
        ns.push(rng.below(300_000));
    }
    for (ni, &n) in ns.iter().enumerate() {
        let mut sizes: Vec<usize> = vec![1, 2, 3, 7, 1024, 2048, 16384, 32768, 65536, n.max(1), n + 1, n.saturating_sub(1).max(1), 2 * n + 1];
        if ni < 4 || n == 100_000 {
            // "larger than the input" taken to the extreme (each panic costs a backtrace: only a few)
            sizes.push(usize::MAX / 2);
            sizes.push(usize::MAX);
        }
        for _ in 0..tier.pick(3, 12) {
            sizes.push(1 + rng.below(n + 10));
        }
        for size in sizes {
            if n / size > 400_000 {
                continue;
            }
            ctx.eval();
            ctx.count("morsels.grid_cells", 1);
            let sid = rng.below(4);
            let size_class = if size == usize::MAX {
                "size:usize_max"
            } else if size > usize::MAX / 4 {
                "size:huge"
            } else if size > n {
                "size>n"
            } else {
                "size<=n"
            };
            nontrivial(ctx, &format!("m{n}/{size}"));
            match catch(|| par::generate_morsels(n, size, sid)) {
                Ok(ms) => {
                    if let Some(c) = check_tiling(&ms, n, size, sid) {
                        ctx.dev(&format!("morsel|generate_morsels|{c}|{size_class}"), json!({"n": n, "size": size, "morsels": ms.len()}));
                    }
                    // split_at keeps the tiling
                    if let Some(m) = ms.first() {
                        let off = rng.below(m.row_count() + 2);
                        match m.split_at(off) {
                            Some((a, b)) => {
                                if a.start_row != m.start_row || a.end_row != b.start_row || b.end_row != m.end_row || a.is_empty() || b.is_empty() {
                                    ctx.dev("morsel|split_at|pieces_do_not_tile", json!({"morsel": format!("{m:?}"), "offset": off}));
                                }
                            }
                            None => {
                                if off > 0 && off < m.row_count() {
                                    ctx.dev("morsel|split_at|refused_inner_offset", json!({"morsel": format!("{m:?}"), "offset": off}));
                                }
                            }
                        }
                    }
                }
                Err(p) => ctx.dev(&format!("morsel|generate_morsels|panic@{}|{size_class}", super::panic_file(&p.site)), json!({"n": n, "size": size, "at": p.at, "msg": p.msg})),
            }
        }
        for (lvl, expect) in [
            (PressureLevel::Normal, par::DEFAULT_MORSEL_SIZE),
            (PressureLevel::Moderate, par::MODERATE_PRESSURE_MORSEL_SIZE),
            (PressureLevel::High, par::HIGH_PRESSURE_MORSEL_SIZE),
            (PressureLevel::Critical, par::CRITICAL_PRESSURE_MORSEL_SIZE),
        ] {
            ctx.eval();
            let ms = par::generate_adaptive_morsels(n, lvl, 0);
            if let Some(c) = check_tiling(&ms, n, expect, 0) {
                ctx.dev(&format!("morsel|generate_adaptive_morsels|{c}|{lvl:?}"), json!({"n": n}));
            }
        }
    }
}

// ---------------------------------------------------------------------------------------------
// ParallelSource partitions cover the source exactly once, in order
// ---------------------------------------------------------------------------------------------

fn drain_source(mut s: Box<dyn Source>, chunk: usize, max: usize) -> Result<Rows, String> {
    let mut out = Vec::new();
    let mut calls = 0;
    loop {
        calls += 1;
        if calls > max {
            return Err("partition source never ends".into());
        }
        match s.next_chunk(chunk) {
            Ok(Some(c)) => chunk_rows(&c, &mut out),
            Ok(None) => return Ok(out),
            Err(e) => return Err(e.to_string()),
        }
    }
}

pub fn source_partitions(ctx: &mut Ctx, tier: Tier, seed: u64) {
    let mut rng = Rng::new(seed, "c17.sources", 0);
    let ns = [0usize, 1, 2, 5, 100, 1023, 1024, 1025, 2049, 5000];
    for case in 0..tier.pick(40, 400) {
        let n = ns[case % ns.len()] + if case >= ns.len() { rng.below(50) } else { 0 };
        let t = gen_table_with(&mut rng, n, &[Kind::Int, Kind::Any]);
        let morsel = *rng.pick(&[1usize, 3, 7, 100, 1024, 2048, 4096, n.max(1), n + 1]);
        let chunk = *rng.pick(&[1usize, 7, 1024, 2048]);
        if n / morsel.min(chunk) > 20_000 {
            continue;
        }
        let sizes_nonempty = [1usize, 2, 7, 100, 1024, 2048, 3000];
        let sizes_empty = [0usize, 1, 2, 7, 100, 1024, 2048, 3000];
        let with_empty = rng.chance(0.5);
        let mut r2 = Rng::new(seed, "c17.sources.chunks", case as u64);
        let mut with_sel = false;
        let sources: Vec<(&str, Arc<dyn par::ParallelSource>)> = vec![
            ("ParallelVectorSource", Arc::new(par::ParallelVectorSource::new(t.columns()))),
            ("ParallelChunkSource", {
                let mut chunks = make_chunks(&t, &mut || if with_empty { *r2.pick(&sizes_empty) } else { *r2.pick(&sizes_nonempty) }, false);
                if with_empty && chunks.is_empty() {
                    chunks.push(make_chunk(&t.kinds, &[], false));
                }
                // now and then a chunk carries an (all-selecting) selection vector, as pull filters produce
                if rng.chance(0.3) {
                    for c in chunks.iter_mut() {
                        if c.len() > 0 && c.len() < 60_000 {
                            c.set_selection(grafeo_core::execution::SelectionVector::new_all(c.len()));
                            with_sel = true;
                        }
                    }
                }
                Arc::new(par::ParallelChunkSource::new(chunks))
            }),
        ];
        for (name, src) in sources {
            ctx.eval();
            ctx.count(&format!("sources.{name}"), 1);
            nontrivial(ctx, &format!("src{name}{n}/{morsel}/{chunk}/{with_empty}"));
            let feature = if name == "ParallelChunkSource" {
                format!("{}{}", if with_empty { "chunks:with_empty" } else { "chunks:nonempty" }, if with_sel { "+selection" } else { "" })
            } else {
                "columns".to_string()
            };
            let r = catch(|| -> Result<Rows, String> {
                if src.total_rows() != Some(n) {
                    return Err(format!("total_rows = {:?}", src.total_rows()));
                }
                let ms = src.generate_morsels(morsel, 0);
                let mut all = Vec::new();
                for m in &ms {
                    let part = drain_source(src.create_partition(m), chunk, n + 1000)?;
                    if part.len() != m.row_count() {
                        return Err(format!("partition of {} rows yields {} rows", m.row_count(), part.len()));
                    }
                    all.extend(part);
                }
                Ok(all)
            });
            let d = |extra: String| json!({"n": n, "morsel": morsel, "chunk": chunk, "problem": extra});
            match r {
                Ok(Ok(all)) => {
                    if all.len() != n || all.iter().zip(t.rows.iter()).any(|(a, b)| rkey(a) != rkey(b)) {
                        ctx.dev(&format!("par_source|{name}|rows_differ|{feature}"), d(format!("{} rows out", all.len())));
                    }
                }
                Ok(Err(e)) => {
                    let cl = if e.starts_with("partition of") {
                        "partition_row_count"
                    } else if e.starts_with("total_rows") {
                        "total_rows"
                    } else {
                        "error"
                    };
                    ctx.dev(&format!("par_source|{name}|{cl}|{feature}"), d(e));
                }
                Err(p) => ctx.dev(&format!("par_source|{name}|panic@{}|{feature}", super::panic_file(&p.site)), d(format!("{} {}", p.at, p.msg))),
            }
        }
        // RangeSource
        ctx.eval();
        let src = par::RangeSource::new(n);
        let ms = par::ParallelSource::generate_morsels(&src, morsel, 0);
        let mut all = Vec::new();
        for m in &ms {
            if let Ok(p) = drain_source(par::ParallelSource::create_partition(&src, m), chunk, n + 1000) {
                all.extend(p);
            }
        }
        if all.len() != n || all.iter().enumerate().any(|(i, r)| !matches!(r[0], Value::Int64(x) if x == i as i64)) {
            ctx.dev("par_source|RangeSource|rows_differ|range", json!({"n": n, "morsel": morsel, "chunk": chunk}));
        }
    }
}

// ---------------------------------------------------------------------------------------------
// MorselScheduler hands every morsel to exactly one worker
// ---------------------------------------------------------------------------------------------

pub fn scheduler_once(ctx: &mut Ctx, tier: Tier, _seed: u64) {
    let reps = tier.pick(5, 50);
    for &w in &[1usize, 2, 3, 8, 16] {
        for &m in &[0usize, 1, w.saturating_sub(1), w, w + 1, 64, 1000] {
            for local in [false, true] {
                for rep in 0..reps {
                    ctx.eval();
                    ctx.count("scheduler.runs", 1);
                    if rep == 0 {
                        nontrivial(ctx, &format!("sched{w}/{m}/{local}"));
                    }
                    let r = catch(|| {
                        let sched = Arc::new(par::MorselScheduler::new(w));
                        sched.submit_batch(par::generate_morsels(m * 10, 10, 0));
                        sched.finish_submission();
                        let seen = std::sync::Mutex::new(Vec::<usize>::new());
                        std::thread::scope(|s| {
                            for wid in 0..w {
                                let sched = sched.clone();
                                let seen = &seen;
                                s.spawn(move || {
                                    let h = par::WorkerHandle::new(sched);
                                    let mut first = true;
                                    let mut mine = Vec::new();
                                    while let Some(mo) = h.get_work() {
                                        if first && local {
                                            first = false;
                                            h.push_local(par::Morsel::new(1_000_000 + wid, 0, 0, 1));
                                        }
                                        mine.push(mo.id);
                                        std::hint::spin_loop();
                                        h.complete_morsel();
                                    }
                                    seen.lock().unwrap().extend(mine);
                                });
                            }
                        });
                        let mut ids = seen.into_inner().unwrap();
                        ids.sort_unstable();
                        (ids, sched.is_done(), sched.active_count())
                    });
                    let cls = if local { "with_push_local" } else { "global_queue" };
                    match r {
                        Ok((ids, done, active)) => {
                            let base: Vec<usize> = ids.iter().copied().filter(|i| *i < 1_000_000).collect();
                            let extra: Vec<usize> = ids.iter().copied().filter(|i| *i >= 1_000_000).collect();
                            let mut dup = false;
                            for x in ids.windows(2) {
                                if x[0] == x[1] {
                                    dup = true;
                                }
                            }
                            let d = json!({"workers": w, "morsels": m, "processed": ids.len(), "done": done, "active": active});
                            if dup {
                                ctx.dev(&format!("sched|morsel_processed_twice|{cls}"), d.clone());
                            }
                            if base != (0..m).collect::<Vec<_>>() {
                                ctx.dev(&format!("sched|morsel_lost|{cls}"), d.clone());
                            }
                            if local && m > 0 && extra.is_empty() {
                                ctx.dev(&format!("sched|local_morsel_lost|{cls}"), d.clone());
                            }
                            if active != 0 {
                                ctx.dev(&format!("sched|active_count_not_zero|{cls}"), d.clone());
                            }
                            if !done && m > 0 {
                                ctx.dev(&format!("sched|not_done_after_all_completed|{cls}"), d);
                            }
                        }
                        Err(p) => ctx.dev(&format!("sched|panic@{}|{cls}", super::panic_file(&p.site)), json!({"at": p.at, "msg": p.msg})),
                    }
                }
            }
        }
    }
}

// ---------------------------------------------------------------------------------------------
// merge functions on explicit partitions
// ---------------------------------------------------------------------------------------------

fn shrink_rows(mut rows: Rows, fails: &dyn Fn(&Rows) -> bool) -> Rows {
    let mut block = rows.len().div_ceil(2).max(1);
    let mut budget = 300;
    loop {
        let mut start = 0;
        let mut removed = false;
        while start < rows.len() && budget > 0 {
            budget -= 1;
            let end = (start + block).min(rows.len());
            let mut c = rows.clone();
            c.drain(start..end);
            if fails(&c) {
                rows = c;
                removed = true;
            } else {
                start = end;
            }
        }
        if block == 1 {
            if !removed || budget == 0 {
                break;
            }
        } else {
            block = block.div_ceil(2);
        }
    }
    rows
}

fn collision_kind(rows: &Rows) -> String {
    // after shrinking: two rows that the engine merged although they differ (which value classes collide
    // depends on the data; the root cause is one: rows are identified by a lossy 64-bit hash)
    if rows.len() == 2 { "merged_different_rows".into() } else { "rows_differ".into() }
}

fn split_random(rng: &mut Rng, rows: &Rows, k: usize) -> Vec<Rows> {
    let mut parts: Vec<Rows> = (0..k).map(|_| Vec::new()).collect();
    for r in rows {
        let p = rng.below(k);
        parts[p].push(r.clone());
    }
    parts
}

pub fn merge_units(ctx: &mut Ctx, tier: Tier, seed: u64) {
    let mut rng = Rng::new(seed, "c17.merge", 0);
    for case in 0..tier.pick(40, 240) {
        let n = match case % 6 {
            0 => rng.below(4),
            1..=3 => 2 + rng.below(60),
            4 => 2040 + rng.below(20),
            _ => 100 + rng.below(1500),
        };
        let t = gen_table(&mut rng, n);
        let k = 1 + rng.below(16);
        // ---- sorted runs
        let ordered: Vec<usize> = (0..t.kinds.len()).filter(|c| t.kinds[*c].ordered()).collect();
        if !ordered.is_empty() {
            let nk = 1 + rng.below(ordered.len().min(2));
            let mut cols = ordered.clone();
            rng.shuffle(&mut cols);
            cols.truncate(nk);
            let keys: Vec<SKey> = cols.iter().map(|c| SKey { col: *c, desc: rng.chance(0.5), nulls_first: rng.chance(0.5) }).collect();
            let pk: Vec<par::SortKey> = keys.iter().map(|s| par::SortKey { column: s.col, ascending: !s.desc, nulls_first: s.nulls_first }).collect();
            let mut runs = split_random(&mut rng, &t.rows, k);
            for r in runs.iter_mut() {
                r.sort_by(|a, b| cmp_rows(a, b, &keys));
            }
            let expect = ref_eval(&t.rows, &[Op::Sort(keys.clone())], None);
            let chunk = *rng.pick(&[1usize, 7, 1024, 2048]);
            let sk = skeleton(&t.kinds, &[Op::Sort(keys.clone())]);
            for which in ["merge_sorted_runs", "merge_sorted_chunks"] {
                ctx.eval();
                ctx.count(&format!("merge.{which}"), 1);
                nontrivial(ctx, &format!("{which}{case}"));
                let runs2 = runs.clone();
                let r = catch(|| -> Result<Rows, String> {
                    if which == "merge_sorted_runs" {
                        par::merge_sorted_runs(runs2, &pk).map_err(|e| e.to_string())
                    } else {
                        let cr: Vec<Vec<DataChunk>> = runs2
                            .iter()
                            .map(|r| {
                                let tt = Table { kinds: t.kinds.clone(), rows: r.clone() };
                                make_chunks(&tt, &mut || chunk, false)
                            })
                            .collect();
                        par::merge_sorted_chunks(cr, &pk, chunk).map(|cs| chunks_rows(&cs)).map_err(|e| e.to_string())
                    }
                });
                match r {
                    Ok(Ok(out)) => {
                        if let Some((kind, d)) = compare(&out, &expect) {
                            ctx.dev(&format!("merge|{which}|{sk}|{kind}"), json!({"runs": k, "rows": n, "detail": d}));
                        }
                    }
                    Ok(Err(e)) => ctx.dev(&format!("merge|{which}|{sk}|error"), json!({"error": e})),
                    Err(p) => ctx.dev(&format!("merge|{which}|{sk}|panic@{}", super::panic_file(&p.site)), json!({"at": p.at, "msg": p.msg})),
                }
            }
        }
        // ---- distinct sets
        {
            ctx.eval();
            ctx.count("merge.merge_distinct_results", 1);
            let kinds = t.kinds.clone();
            let run = |rows: &Rows, k: usize, seed2: u64| -> Result<Rows, String> {
                let mut r2 = Rng::new(seed2, "c17.merge.split", 0);
                let parts = split_random(&mut r2, rows, k);
                // each partition is already distinct (as a per-worker distinct would leave it)
                let sets: Vec<Vec<DataChunk>> = parts
                    .iter()
                    .map(|p| {
                        let d = ref_eval(p, &[Op::Distinct(None)], None).rows;
                        let tt = Table { kinds: kinds.clone(), rows: d };
                        make_chunks(&tt, &mut || 1024, false)
                    })
                    .collect();
                par::merge_distinct_results(sets).map(|cs| chunks_rows(&cs)).map_err(|e| e.to_string())
            };
            let s2 = rng.next_u64();
            let fails = |rows: &Rows| -> bool {
                let exp = ref_eval(rows, &[Op::Distinct(None)], None);
                match catch(|| run(rows, k, s2)) {
                    Ok(Ok(out)) => compare(&out, &exp).is_some(),
                    _ => false,
                }
            };
            match catch(|| run(&t.rows, k, s2)) {
                Ok(Ok(out)) => {
                    let exp = ref_eval(&t.rows, &[Op::Distinct(None)], None);
                    if compare(&out, &exp).is_some() {
                        let small = shrink_rows(exp.rows.clone(), &fails);
                        ctx.dev(
                            &format!("merge|merge_distinct_results|{}", collision_kind(&small)),
                            json!({"rows": small.iter().map(|r| r.iter().map(vals::show).collect::<Vec<_>>()).collect::<Vec<_>>(), "partitions": k}),
                        );
                    }
                }
                Ok(Err(e)) => ctx.dev("merge|merge_distinct_results|error", json!({"error": e})),
                Err(p) => ctx.dev(&format!("merge|merge_distinct_results|panic@{}", super::panic_file(&p.site)), json!({"at": p.at, "msg": p.msg})),
            }
        }
        // ---- mergeable accumulators
        for c in 0..t.kinds.len() {
            if !t.kinds[c].ordered() {
                continue;
            }
            ctx.eval();
            ctx.count("merge.MergeableAccumulator", 1);
            let vals_col: Vec<Value> = t.rows.iter().map(|r| r[c].clone()).collect();
            let parts = split_random(&mut rng, &t.rows, k);
            let mut accs: Vec<par::MergeableAccumulator> = parts
                .iter()
                .map(|p| {
                    let mut a = par::MergeableAccumulator::new();
                    for r in p {
                        a.add(&r[c]);
                    }
                    a
                })
                .collect();
            // merge in a random tree order
            while accs.len() > 1 {
                let i = rng.below(accs.len());
                let a = accs.remove(i);
                let j = rng.below(accs.len());
                if rng.chance(0.5) {
                    accs[j].merge(&a);
                } else {
                    let mut a2 = a;
                    a2.merge(&accs[j]);
                    accs[j] = a2;
                }
            }
            let merged = accs.pop().unwrap_or_default();
            let mut single = par::MergeableAccumulator::new();
            for v in &vals_col {
                single.add(v);
            }
            let kind = t.kinds[c].tag();
            let numeric = matches!(t.kinds[c], Kind::Int | Kind::Float);
            let pairs: Vec<(&str, Value, Value)> = vec![
                ("count", merged.finalize_count(), single.finalize_count()),
                ("sum", merged.finalize_sum(), single.finalize_sum()),
                ("min", merged.finalize_min(), single.finalize_min()),
                ("max", merged.finalize_max(), single.finalize_max()),
                ("avg", merged.finalize_avg(), single.finalize_avg()),
            ];
            for (f, m, s) in pairs {
                if !numeric && (f == "sum" || f == "avg") {
                    continue;
                }
                if t.kinds[c] == Kind::Bool && (f == "min" || f == "max") {
                    // order dependent by construction (no bool ordering in the accumulator): covered by
                    // the pipeline cases, not a merge law
                    continue;
                }
                if !vals::bit_eq(&m, &s) {
                    ctx.dev(
                        &format!("merge|MergeableAccumulator|merged_ne_sequential|{f}:{kind}"),
                        json!({"merged": vals::show(&m), "sequential": vals::show(&s), "parts": k, "n": n}),
                    );
                }
            }
        }
    }
}

// ---------------------------------------------------------------------------------------------
// ExternalSort
// ---------------------------------------------------------------------------------------------

pub fn external_sort(ctx: &mut Ctx, tier: Tier, seed: u64) {
    let mut rng = Rng::new(seed, "c17.extsort", 0);
    let ns: Vec<usize> = tier.pick(vec![0, 1, 2, 3, 10, 100, 257, 2049, 6000], vec![0, 1, 2, 3, 10, 100, 257, 2049, 6000, 20_000, 100_000]);
    for round in 0..tier.pick(2, 6) {
        for &n in &ns {
            if n >= 20_000 && round > 1 {
                continue;
            }
            let t = gen_table(&mut rng, n);
            let ordered: Vec<usize> = (0..t.kinds.len()).filter(|c| t.kinds[*c].ordered()).collect();
            if ordered.is_empty() {
                continue;
            }
            let nk = 1 + rng.below(ordered.len().min(2));
            let mut cols = ordered.clone();
            rng.shuffle(&mut cols);
            cols.truncate(nk);
            let keys: Vec<SKey> = cols.iter().map(|c| SKey { col: *c, desc: rng.chance(0.5), nulls_first: rng.chance(0.5) }).collect();
            let sk: Vec<spill::SortKey> = keys
                .iter()
                .map(|s| spill::SortKey {
                    column: s.col,
                    direction: if s.desc { spill::SortDirection::Descending } else { spill::SortDirection::Ascending },
                    null_order: if s.nulls_first { spill::NullOrder::First } else { spill::NullOrder::Last },
                })
                .collect();
            let expect = ref_eval(&t.rows, &[Op::Sort(keys.clone())], None);
            let skel = skeleton(&t.kinds, &[Op::Sort(keys.clone())]);
            let mut run_sizes: Vec<usize> = vec![2, 7, (n / 3).max(1), n.saturating_sub(1).max(1), n.max(1), n + 1];
            if n <= 300 {
                run_sizes.push(1);
            }
            run_sizes.push(1 + rng.below(n + 1));
            run_sizes.retain(|r| n / r <= 400);
            run_sizes.sort_unstable();
            run_sizes.dedup();
            for rs in run_sizes {
                for keep_last_in_memory in [false, true] {
                    ctx.eval();
                    ctx.count("extsort.runs", 1);
                    nontrivial(ctx, &format!("es{n}/{rs}/{keep_last_in_memory}/{skel}"));
                    let dir = scratch_dir("c17es");
                    let use_cleanup = rng.chance(0.5);
                    let r = catch(|| -> Result<(Rows, usize, usize, Vec<String>, u64), String> {
                        let mgr = Arc::new(SpillManager::new(dir.clone()).map_err(|e| e.to_string())?);
                        let mut es = ExternalSort::new(mgr.clone(), t.kinds.len(), sk.clone());
                        let mut chunks: Vec<Rows> = t.rows.chunks(rs).map(|c| c.to_vec()).collect();
                        let mem = if keep_last_in_memory { chunks.pop().unwrap_or_default() } else { Vec::new() };
                        let spilled_rows: usize = chunks.iter().map(|c| c.len()).sum();
                        let n_runs = chunks.len();
                        for mut c in chunks {
                            c.sort_by(|a, b| cmp_rows(a, b, &keys));
                            es.spill_sorted_run(c).map_err(|e| e.to_string())?;
                        }
                        if es.num_runs() != n_runs || es.total_rows() != spilled_rows {
                            return Err(format!("bookkeeping: num_runs {} (expected {n_runs}), total_rows {} (expected {spilled_rows})", es.num_runs(), es.total_rows()));
                        }
                        let out = es.merge_all(mem).map_err(|e| e.to_string())?;
                        if use_cleanup {
                            es.cleanup();
                        } else {
                            drop(es);
                        }
                        let left = list_dir(&dir);
                        let bytes = mgr.spilled_bytes();
                        Ok((out, n_runs, spilled_rows, left, bytes))
                    });
                    let _ = std::fs::remove_dir_all(&dir);
                    let cfgc = format!("runs:{}|mem:{}", match n.div_ceil(rs) - usize::from(keep_last_in_memory && n > 0) { 0 => "0", 1 => "1", _ => "many" }, keep_last_in_memory);
                    match r {
                        Ok(Ok((out, _runs, _rows, left, bytes))) => {
                            if let Some((kind, d)) = compare(&out, &expect) {
                                ctx.dev(&format!("extsort|{skel}|{kind}|{cfgc}"), json!({"n": n, "run_size": rs, "detail": d}));
                            }
                            if !left.is_empty() {
                                ctx.dev(&format!("spilldir|ExternalSort|{}|files_left", if use_cleanup { "cleanup" } else { "drop" }), json!({"files": left}));
                            }
                            if bytes != 0 {
                                ctx.dev("spilldir|ExternalSort|spilled_bytes_not_zero_after_cleanup", json!({"bytes": bytes}));
                            }
                        }
                        Ok(Err(e)) => {
                            let c = if e.starts_with("bookkeeping") { "bookkeeping".to_string() } else { format!("error:{}", e.chars().filter(|c| !c.is_ascii_digit()).take(40).collect::<String>()) };
                            ctx.dev(&format!("extsort|{skel}|{c}|{cfgc}"), json!({"n": n, "run_size": rs, "error": e}));
                        }
                        Err(p) => ctx.dev(&format!("extsort|{skel}|panic@{}|{cfgc}", super::panic_file(&p.site)), json!({"n": n, "run_size": rs, "at": p.at, "msg": p.msg})),
                    }
                }
            }
        }
    }
}

// ---------------------------------------------------------------------------------------------
// PartitionedState against a map model
// ---------------------------------------------------------------------------------------------

fn ser_i64(v: &i64, w: &mut dyn Write) -> std::io::Result<()> {
    w.write_all(&v.to_le_bytes())
}
fn de_i64(r: &mut dyn Read) -> std::io::Result<i64> {
    let mut b = [0u8; 8];
    r.read_exact(&mut b)?;
    Ok(i64::from_le_bytes(b))
}

pub fn partitioned_state(ctx: &mut Ctx, tier: Tier, seed: u64) {
    let key_pool: Vec<Value> = {
        let mut p = vec![
            Value::Null,
            Value::Bool(false),
            Value::Bool(true),
            Value::Int64(0),
            Value::Int64(1),
            Value::Int64(-1),
            Value::Float64(0.0),
            Value::Float64(-0.0),
            Value::Float64(1.0),
            Value::Float64(f64::NAN),
            vals::s(""),
            vals::s("a"),
            vals::s("1"),
            vals::s("日本"),
            Value::Bytes(Arc::from(&[0u8, 1][..])),
            vals::list(vec![Value::Int64(1)]),
            vals::list(vec![Value::Int64(2)]),
            vals::map(vec![("a", Value::Int64(1))]),
            vals::vector(&[1.0, 2.0]),
        ];
        for i in 2..40 {
            p.push(Value::Int64(i));
        }
        p
    };
    for case in 0..tier.pick(30, 200) {
        let mut rng = Rng::new(seed, "c17.pstate", case as u64);
        let nparts = *rng.pick(&[1usize, 2, 4, 16, 256]);
        let nops = tier.pick(300, 1000);
        ctx.eval();
        ctx.count("pstate.histories", 1);
        nontrivial(ctx, &format!("ps{case}/{nparts}"));
        let dir = scratch_dir("c17ps");
        let pool = key_pool.clone();
        let r = catch(|| -> Result<u64, (String, String)> {
            let mgr = Arc::new(SpillManager::new(dir.clone()).map_err(|e| ("io".to_string(), e.to_string()))?);
            let mut ps: PartitionedState<i64> = PartitionedState::new(mgr.clone(), nparts, ser_i64, de_i64);
            let mut model: BTreeMap<String, (Vec<Value>, i64)> = BTreeMap::new();
            let mut ops_done = 0u64;
            let io = |op: &str, e: std::io::Error| (format!("{op}|io_error"), e.to_string());
            for step in 0..nops {
                let klen = 1 + rng.below(2);
                let key: Vec<Value> = (0..klen)
                    .map(|_| {
                        let lim = if rng.chance(0.7) { 12 } else { pool.len() };
                        pool[rng.below(lim)].clone()
                    })
                    .collect();
                let mk = rkey(&key);
                ops_done += 1;
                match rng.below(10) {
                    0 | 1 => {
                        let v = rng.range(-5, 5);
                        let old = ps.insert(key.clone(), v).map_err(|e| io("insert", e))?;
                        let mold = model.insert(mk, (key, v)).map(|x| x.1);
                        if old != mold {
                            return Err(("insert|returned_old_value".into(), format!("step {step}: got {old:?}, model {mold:?}")));
                        }
                    }
                    2 | 3 => {
                        let got = ps.get(&key).map_err(|e| io("get", e))?.copied();
                        let exp = model.get(&mk).map(|x| x.1);
                        if got != exp {
                            return Err(("get|value".into(), format!("step {step}: key {:?} got {got:?}, model {exp:?}", key.iter().map(vals::show).collect::<Vec<_>>())));
                        }
                    }
                    4 | 5 | 6 => {
                        let v = ps.get_or_insert_with(key.clone(), || 100).map_err(|e| io("get_or_insert_with", e))?;
                        let e = model.entry(mk).or_insert((key, 100));
                        if *v != e.1 {
                            return Err(("get_or_insert_with|value".into(), format!("step {step}: got {v}, model {}", e.1)));
                        }
                        *v += 1;
                        e.1 += 1;
                    }
                    7 => {
                        let i = rng.below(nparts);
                        ps.spill_partition(i).map_err(|e| io("spill_partition", e))?;
                    }
                    8 => {
                        if rng.chance(0.5) {
                            ps.spill_lru().map_err(|e| io("spill_lru", e))?;
                        } else {
                            ps.spill_largest().map_err(|e| io("spill_largest", e))?;
                        }
                    }
                    _ => {
                        let all = ps.iter_all().map_err(|e| io("iter_all", e))?;
                        let mut got: Vec<(String, i64)> = all.iter().map(|(k, v)| (rkey(k), *v)).collect();
                        got.sort();
                        let exp: Vec<(String, i64)> = model.iter().map(|(k, v)| (k.clone(), v.1)).collect();
                        if got != exp {
                            return Err(("iter_all|entries".into(), format!("step {step}: {} entries, model {}", got.len(), exp.len())));
                        }
                    }
                }
                if ps.total_size() != model.len() {
                    return Err(("total_size".into(), format!("step {step}: total_size {} model {}", ps.total_size(), model.len())));
                }
                if ps.in_memory_count() + ps.spilled_count() > nparts {
                    return Err(("partition_accounting".into(), format!("step {step}: in_memory {} + spilled {} > {nparts}", ps.in_memory_count(), ps.spilled_count())));
                }
                let on_disk = list_dir(&dir).len();
                if on_disk != ps.spilled_count() {
                    return Err(("files_vs_spilled_count".into(), format!("step {step}: {on_disk} files on disk, spilled_count {}", ps.spilled_count())));
                }
            }
            // drain
            let all = ps.drain_all().map_err(|e| io("drain_all", e))?;
            let mut got: Vec<(String, i64)> = all.iter().map(|(k, v)| (rkey(k), *v)).collect();
            got.sort();
            let exp: Vec<(String, i64)> = model.iter().map(|(k, v)| (k.clone(), v.1)).collect();
            if got != exp {
                return Err(("drain_all|entries".into(), format!("{} entries, model {}", got.len(), exp.len())));
            }
            if ps.total_size() != 0 {
                return Err(("drain_all|total_size_not_zero".into(), format!("{}", ps.total_size())));
            }
            let left = list_dir(&dir);
            if !left.is_empty() {
                return Err(("drain_all|files_left".into(), format!("{left:?}")));
            }
            if mgr.spilled_bytes() != 0 {
                return Err(("drain_all|spilled_bytes_not_zero".into(), format!("{}", mgr.spilled_bytes())));
            }
            Ok(ops_done)
        });
        let _ = std::fs::remove_dir_all(&dir);
        match r {
            Ok(Ok(n)) => ctx.count("pstate.operations", n),
            Ok(Err((c, d))) => ctx.dev(&format!("pstate|{c}"), json!({"partitions": nparts, "detail": d, "case": case})),
            Err(p) => ctx.dev(&format!("pstate|panic@{}", super::panic_file(&p.site)), json!({"at": p.at, "msg": p.msg})),
        }
    }
}

// ---------------------------------------------------------------------------------------------
// spill file lifecycle
// ---------------------------------------------------------------------------------------------

struct NullSink2;
impl Sink for NullSink2 {
    fn consume(&mut self, _c: DataChunk) -> Result<bool, grafeo_core::execution::operators::OperatorError> {
        Ok(true)
    }
    fn finalize(&mut self) -> Result<(), grafeo_core::execution::operators::OperatorError> {
        Ok(())
    }
    fn name(&self) -> &'static str {
        "C17Null"
    }
}

pub fn spill_lifecycle(ctx: &mut Ctx, _tier: Tier, seed: u64) {
    let mut rng = Rng::new(seed, "c17.lifecycle", 0);
    let t = gen_table_with(&mut rng, 600, &[Kind::Int, Kind::Str, Kind::Any]);
    let chunks = |t: &Table| make_chunks(t, &mut || 100, false);
    let cell = |ctx: &mut Ctx, component: &str, event: &str, f: &mut dyn FnMut(Arc<SpillManager>, &std::path::Path) -> Result<usize, String>| {
        ctx.eval();
        ctx.count("spilldir.cells", 1);
        nontrivial(ctx, &format!("life{component}{event}"));
        let dir = scratch_dir("c17life");
        let d2 = dir.clone();
        let r = catch(|| -> Result<(usize, Vec<String>, Vec<String>), String> {
            let mgr = Arc::new(SpillManager::new(d2.clone()).map_err(|e| e.to_string())?);
            let peak = f(mgr.clone(), &d2)?;
            let alive = list_dir(&d2);
            drop(mgr);
            let after = list_dir(&d2);
            Ok((peak, alive, after))
        });
        let _ = std::fs::remove_dir_all(&dir);
        match r {
            Ok(Ok((peak, alive, after))) => {
                if peak == 0 {
                    ctx.ev.push(Ev::Inconclusive(format!("spill lifecycle cell {component}/{event} never had a file on disk")));
                }
                if !after.is_empty() {
                    ctx.dev(&format!("spilldir|{component}|{event}|files_left_after_manager_drop"), json!({"files": after}));
                } else if !alive.is_empty() {
                    ctx.dev(&format!("spilldir|{component}|{event}|files_left"), json!({"files": alive.len(), "first": alive[0], "peak_files": peak}));
                }
            }
            Ok(Err(e)) => ctx.dev(&format!("spilldir|{component}|{event}|error"), json!({"error": e})),
            Err(p) => ctx.dev(&format!("spilldir|{component}|{event}|panic@{}", super::panic_file(&p.site)), json!({"at": p.at, "msg": p.msg})),
        }
    };
    let keys = vec![pushops::SortKey { column: 0, direction: pushops::SortDirection::Ascending, null_order: pushops::NullOrder::Last }];
    for finalize in [true, false] {
        let ev = if finalize { "finalize_then_drop" } else { "drop_without_finalize" };
        cell(ctx, "SpillableSortPushOperator", ev, &mut |mgr, dir| {
            let mut op = pushops::SpillableSortPushOperator::with_spilling(keys.clone(), mgr, 1);
            let mut sink = NullSink2;
            for c in chunks(&t) {
                op.push(c, &mut sink).map_err(|e| e.to_string())?;
            }
            let peak = list_dir(dir).len();
            if finalize {
                op.finalize(&mut sink).map_err(|e| e.to_string())?;
            }
            drop(op);
            Ok(peak)
        });
        cell(ctx, "SpillableAggregatePushOperator", ev, &mut |mgr, dir| {
            let mut op = pushops::SpillableAggregatePushOperator::with_spilling(vec![0], vec![pushops::AggregateExpr::count_star()], mgr, 0);
            let mut sink = NullSink2;
            let mut peak = 0;
            for c in chunks(&t) {
                op.push(c, &mut sink).map_err(|e| e.to_string())?;
                peak = peak.max(list_dir(dir).len());
            }
            if finalize {
                op.finalize(&mut sink).map_err(|e| e.to_string())?;
            }
            drop(op);
            Ok(peak)
        });
    }
    for ev in ["drain_all", "cleanup", "drop"] {
        cell(ctx, "PartitionedState", ev, &mut |mgr, dir| {
            let mut ps: PartitionedState<i64> = PartitionedState::new(mgr, 8, ser_i64, de_i64);
            for i in 0..200 {
                ps.insert(vec![Value::Int64(i)], i).map_err(|e| e.to_string())?;
            }
            for p in 0..8 {
                ps.spill_partition(p).map_err(|e| e.to_string())?;
            }
            let peak = list_dir(dir).len();
            match ev {
                "drain_all" => {
                    ps.drain_all().map_err(|e| e.to_string())?;
                }
                "cleanup" => ps.cleanup(),
                _ => {}
            }
            drop(ps);
            Ok(peak)
        });
    }
    for ev in ["cleanup", "drop", "merge_then_drop"] {
        cell(ctx, "ExternalSort", ev, &mut |mgr, dir| {
            let mut es = ExternalSort::new(mgr, 1, vec![spill::SortKey::ascending(0)]);
            for r in 0..5 {
                es.spill_sorted_run((0..50).map(|i| vec![Value::Int64(i * 5 + r)]).collect()).map_err(|e| e.to_string())?;
            }
            let peak = list_dir(dir).len();
            match ev {
                "cleanup" => es.cleanup(),
                "merge_then_drop" => {
                    es.merge_all(Vec::new()).map_err(|e| e.to_string())?;
                }
                _ => {}
            }
            drop(es);
            Ok(peak)
        });
    }
    cell(ctx, "SpillManager", "files_created_then_manager_dropped", &mut |mgr, dir| {
        for i in 0..4 {
            let mut f = mgr.create_file("x").map_err(|e| e.to_string())?;
            f.write_all(&[i as u8; 100]).map_err(|e| e.to_string())?;
            f.finish_write().map_err(|e| e.to_string())?;
            if i % 2 == 0 {
                f.delete().map_err(|e| e.to_string())?;
            }
        }
        let peak = list_dir(dir).len();
        // files still on disk here belong to the live manager: expected; report only what is left after it
        // is dropped. To keep the "alive" check meaningful, clean up explicitly.
        mgr.cleanup().map_err(|e| e.to_string())?;
        Ok(peak)
    });
}
