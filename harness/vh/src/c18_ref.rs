//! C18 helpers: per-thread accumulator, f64 scalar reference definitions with sound error
//! bounds, vector generators.

use crate::report::Report;
use crate::rng::Rng;
use serde_json::Value as J;
use std::collections::BTreeMap;

// ---------------------------------------------------------------------------------------
// accumulator (one per worker thread / case; merged into the Report in case order)
// ---------------------------------------------------------------------------------------

#[derive(Default)]
pub struct Acc {
    pub evals: u64,
    pub counters: BTreeMap<String, u64>,
    pub nontrivial: Vec<u64>,
    /// signature -> (occurrences, first detail)
    pub devs: BTreeMap<String, (u64, J)>,
    pub samples: Vec<J>,
    /// harness-side trouble (never a violation)
    pub inconclusive: Vec<String>,
}

impl Acc {
    pub fn eval(&mut self) {
        self.evals += 1;
    }
    pub fn count(&mut self, k: &str, n: u64) {
        *self.counters.entry(k.to_string()).or_insert(0) += n;
    }
    pub fn nontrivial(&mut self, h: u64) {
        self.nontrivial.push(h);
    }
    pub fn dev(&mut self, sig: &str, detail: impl FnOnce() -> J) {
        match self.devs.get_mut(sig) {
            Some(e) => e.0 += 1,
            None => {
                self.devs.insert(sig.to_string(), (1, detail()));
            }
        }
    }
    pub fn sample(&mut self, v: J) {
        if self.samples.len() < 2 {
            self.samples.push(v);
        }
    }
    pub fn merge_into(self, rep: &mut Report) {
        rep.evals(self.evals);
        for (k, v) in self.counters {
            rep.count(&k, v);
        }
        for h in self.nontrivial {
            rep.nontrivial(h);
        }
        for (sig, (n, d)) in self.devs {
            rep.deviation(&sig, d);
            for _ in 1..n {
                rep.deviation(&sig, J::Null);
            }
        }
        for s in self.samples {
            rep.sample(s);
        }
        for w in self.inconclusive {
            rep.inconclusive(&w);
        }
    }
}

// ---------------------------------------------------------------------------------------
// reference definitions
// ---------------------------------------------------------------------------------------

/// unit roundoff of f32
pub const U: f64 = 5.960_464_477_539_063e-8; // 2^-24
/// f32::EPSILON as f64
pub const F32_EPS: f64 = 1.192_092_895_507_812_5e-7;
/// anything whose exact magnitude exceeds this may overflow an f32 intermediate
pub const LIM: f64 = 1e37;
/// a squared norm below this is in (or near) the f32 underflow range: the relative error
/// model of floating point does not hold there
pub const UNDER: f64 = 1e-30;

pub fn gamma(n: usize) -> f64 {
    let x = n as f64 * U;
    x / (1.0 - x)
}

#[derive(Clone, Copy, Debug, PartialEq, Eq)]
pub enum Fun {
    Dot,
    NegDot,
    EuclidSq,
    Euclid,
    Manhattan,
    CosDist,
    CosSim,
}

#[derive(Clone, Copy, Debug)]
pub struct Refv {
    /// value by the definition, computed in f64
    pub val: f64,
    /// sound bound on |f32 kernel - val| (any summation order, FMA or not)
    pub tol: f64,
    /// false: reference not finite / outside the range where the f32 error model holds;
    /// only "no panic" is demanded
    pub demanded: bool,
    pub class: &'static str,
}

pub struct Sums {
    pub dot: f64,
    pub sabs: f64,
    pub na: f64,
    pub nb: f64,
    pub dsq: f64,
    pub l1: f64,
    pub finite: bool,
}

pub fn sums(a: &[f32], b: &[f32]) -> Sums {
    let mut s = Sums { dot: 0.0, sabs: 0.0, na: 0.0, nb: 0.0, dsq: 0.0, l1: 0.0, finite: true };
    for i in 0..a.len().min(b.len()) {
        let (x, y) = (f64::from(a[i]), f64::from(b[i]));
        if !x.is_finite() || !y.is_finite() {
            s.finite = false;
        }
        s.dot += x * y;
        s.sabs += (x * y).abs();
        s.na += x * x;
        s.nb += y * y;
        s.dsq += (x - y) * (x - y);
        s.l1 += (x - y).abs();
    }
    s
}

fn skip(class: &'static str) -> Refv {
    Refv { val: f64::NAN, tol: 0.0, demanded: false, class }
}

/// The plain definition of each metric in f64, with the error bound
/// 4*gamma_(n+4)*S + 1e-6 where S is the sum of absolute values of the terms summed
/// (for sqrt-ed results: relative to the result; for cosine: relative to |a||b|).
pub fn reference(f: Fun, a: &[f32], b: &[f32]) -> Refv {
    let s = sums(a, b);
    if !s.finite {
        return skip("nonfinite_input");
    }
    let g = 4.0 * gamma(a.len() + 4);
    match f {
        Fun::Dot | Fun::NegDot => {
            if s.sabs > LIM {
                return skip("overflow");
            }
            let v = if f == Fun::Dot { s.dot } else { -s.dot };
            Refv { val: v, tol: g * s.sabs + 1e-6, demanded: true, class: "finite" }
        }
        Fun::EuclidSq => {
            if s.dsq > LIM {
                return skip("overflow");
            }
            Refv { val: s.dsq, tol: g * s.dsq + 1e-6, demanded: true, class: "finite" }
        }
        Fun::Euclid => {
            if s.dsq > LIM {
                return skip("overflow");
            }
            let d = s.dsq.sqrt();
            Refv { val: d, tol: g * d + 1e-6, demanded: true, class: "finite" }
        }
        Fun::Manhattan => {
            if s.l1 > LIM {
                return skip("overflow");
            }
            Refv { val: s.l1, tol: g * s.l1 + 1e-6, demanded: true, class: "finite" }
        }
        Fun::CosDist | Fun::CosSim => {
            if s.na == 0.0 || s.nb == 0.0 {
                return skip("zero_vector");
            }
            if s.na < UNDER || s.nb < UNDER {
                return skip("underflow");
            }
            if s.na > LIM || s.nb > LIM {
                return skip("overflow");
            }
            let p = s.na.sqrt() * s.nb.sqrt();
            let c = s.dot / p;
            let v = if f == Fun::CosSim { c } else { 1.0 - c };
            let class = if p < 1.0 { "normprod<1" } else { "normprod>=1" };
            Refv { val: v, tol: g * (s.sabs / p + 1.0) + 1e-6, demanded: true, class }
        }
    }
}

pub fn within(got: f32, r: &Refv) -> bool {
    (f64::from(got) - r.val).abs() <= r.tol
}

pub fn norm64(v: &[f32]) -> f64 {
    v.iter().map(|x| f64::from(*x) * f64::from(*x)).sum::<f64>().sqrt()
}

/// 0 < |v| <= f32::EPSILON (with a little slack for the f32 rounding of the norm)
pub fn is_tiny_norm(v: &[f32]) -> bool {
    let n = norm64(v);
    n > 0.0 && n <= 1.2e-7
}

// ---------------------------------------------------------------------------------------
// vector generators
// ---------------------------------------------------------------------------------------

#[derive(Clone, Copy, Debug, PartialEq, Eq)]
pub enum VKind {
    /// components uniform in [-1,1]
    Unit,
    /// rescaled so that the norm is in [1,10]
    BigNorm,
    /// x 10^e, e in -3..=3
    Scaled,
    /// x 1e-4: norm well below 1, far above f32::EPSILON
    Small,
    /// x 1e-9: 0 < norm <= f32::EPSILON, squared norm still a normal f32
    Tiny,
    /// x 1e-30
    Minus30,
    /// x 1e30
    Huge,
    Zero,
    /// small integers: many ties and exact duplicates
    Grid,
    /// one component x 1e18 among unit ones
    MixedHuge,
    /// mostly zeros
    Sparse,
}

impl VKind {
    pub fn name(self) -> &'static str {
        match self {
            VKind::Unit => "unit",
            VKind::BigNorm => "bignorm",
            VKind::Scaled => "scaled",
            VKind::Small => "small1e-4",
            VKind::Tiny => "tiny1e-9",
            VKind::Minus30 => "1e-30",
            VKind::Huge => "1e30",
            VKind::Zero => "zero",
            VKind::Grid => "grid",
            VKind::MixedHuge => "mixed1e18",
            VKind::Sparse => "sparse",
        }
    }
}

fn unit(r: &mut Rng, dim: usize) -> Vec<f32> {
    (0..dim).map(|_| (r.f64() * 2.0 - 1.0) as f32).collect()
}

pub fn gen_vec(r: &mut Rng, dim: usize, kind: VKind) -> Vec<f32> {
    match kind {
        VKind::Unit => unit(r, dim),
        VKind::BigNorm => {
            let mut v = unit(r, dim);
            let n = norm64(&v);
            if n < 1e-3 {
                v[0] = 1.0;
            }
            let n = norm64(&v);
            let target = 1.0 + 9.0 * r.f64();
            let s = (target / n) as f32;
            for x in &mut v {
                *x *= s;
            }
            // rounding could leave the norm a hair below 1: push it up
            if norm64(&v) < 1.0 {
                for x in &mut v {
                    *x *= 1.001;
                }
            }
            v
        }
        VKind::Scaled => {
            let s = 10f32.powi(r.range(-3, 3) as i32);
            unit(r, dim).into_iter().map(|x| x * s).collect()
        }
        VKind::Small => unit(r, dim).into_iter().map(|x| x * 1e-4).collect(),
        VKind::Tiny => {
            let mut v: Vec<f32> = unit(r, dim).into_iter().map(|x| x * 1e-9).collect();
            if v.iter().all(|x| x.abs() < 1e-12) {
                v[0] = 1e-9;
            }
            v
        }
        VKind::Minus30 => unit(r, dim).into_iter().map(|x| x * 1e-30).collect(),
        VKind::Huge => unit(r, dim).into_iter().map(|x| x * 1e30).collect(),
        VKind::Zero => vec![0.0; dim],
        VKind::Grid => (0..dim).map(|_| r.range(-2, 2) as f32).collect(),
        VKind::MixedHuge => {
            let mut v = unit(r, dim);
            let i = r.below(dim);
            v[i] *= 1e18;
            v
        }
        VKind::Sparse => (0..dim).map(|_| if r.chance(0.15) { (r.f64() * 2.0 - 1.0) as f32 } else { 0.0 }).collect(),
    }
}

pub fn gen_any(r: &mut Rng, dim: usize, kinds: &[VKind]) -> Vec<f32> {
    let k = *r.pick(kinds);
    gen_vec(r, dim, k)
}

pub fn show_vec(v: &[f32]) -> J {
    if v.len() <= 20 {
        serde_json::json!(v.iter().map(|x| format!("{x:e}")).collect::<Vec<_>>())
    } else {
        serde_json::json!({"dim": v.len(), "head": v.iter().take(8).map(|x| format!("{x:e}")).collect::<Vec<_>>(), "norm": norm64(v)})
    }
}

pub fn metric_fun(m: grafeo_core::index::vector::DistanceMetric) -> Fun {
    use grafeo_core::index::vector::DistanceMetric as M;
    match m {
        M::Cosine => Fun::CosDist,
        M::Euclidean => Fun::Euclid,
        M::DotProduct => Fun::NegDot,
        M::Manhattan => Fun::Manhattan,
    }
}
