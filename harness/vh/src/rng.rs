//! Deterministic PRNG (xoshiro256**), seeded from (VERIF_SEED, stream name, case index).

#[derive(Clone, Debug)]
pub struct Rng {
    s: [u64; 4],
}

fn splitmix(x: &mut u64) -> u64 {
    *x = x.wrapping_add(0x9E37_79B9_7F4A_7C15);
    let mut z = *x;
    z = (z ^ (z >> 30)).wrapping_mul(0xBF58_476D_1CE4_E5B9);
    z = (z ^ (z >> 27)).wrapping_mul(0x94D0_49BB_1331_11EB);
    z ^ (z >> 31)
}

pub fn fnv(s: &[u8]) -> u64 {
    let mut h: u64 = 0xcbf2_9ce4_8422_2325;
    for b in s {
        h ^= u64::from(*b);
        h = h.wrapping_mul(0x0000_0100_0000_01B3);
    }
    h
}

pub fn hash_str(s: &str) -> u64 {
    fnv(s.as_bytes())
}

impl Rng {
    pub fn new(seed: u64, stream: &str, case: u64) -> Self {
        let mut x = seed ^ fnv(stream.as_bytes()).rotate_left(17) ^ case.wrapping_mul(0xD6E8_FEB8_6659_FD93);
        let s = [splitmix(&mut x), splitmix(&mut x), splitmix(&mut x), splitmix(&mut x)];
        Rng { s }
    }
    pub fn next_u64(&mut self) -> u64 {
        let r = self.s[1].wrapping_mul(5).rotate_left(7).wrapping_mul(9);
        let t = self.s[1] << 17;
        self.s[2] ^= self.s[0];
        self.s[3] ^= self.s[1];
        self.s[1] ^= self.s[2];
        self.s[0] ^= self.s[3];
        self.s[2] ^= t;
        self.s[3] = self.s[3].rotate_left(45);
        r
    }
    /// uniform in 0..n (n > 0)
    pub fn below(&mut self, n: usize) -> usize {
        debug_assert!(n > 0);
        (self.next_u64() % (n as u64)) as usize
    }
    /// uniform in lo..=hi
    pub fn range(&mut self, lo: i64, hi: i64) -> i64 {
        debug_assert!(lo <= hi);
        let span = (hi as i128 - lo as i128 + 1) as u128;
        (lo as i128 + (u128::from(self.next_u64()) % span) as i128) as i64
    }
    pub fn chance(&mut self, p: f64) -> bool {
        self.f64() < p
    }
    pub fn f64(&mut self) -> f64 {
        (self.next_u64() >> 11) as f64 / (1u64 << 53) as f64
    }
    pub fn pick<'a, T>(&mut self, xs: &'a [T]) -> &'a T {
        &xs[self.below(xs.len())]
    }
    pub fn shuffle<T>(&mut self, xs: &mut [T]) {
        for i in (1..xs.len()).rev() {
            let j = self.below(i + 1);
            xs.swap(i, j);
        }
    }
    /// weighted choice: returns index
    pub fn weighted(&mut self, w: &[u32]) -> usize {
        let total: u32 = w.iter().sum();
        let mut r = (self.next_u64() % u64::from(total)) as u32;
        for (i, x) in w.iter().enumerate() {
            if r < *x {
                return i;
            }
            r -= *x;
        }
        w.len() - 1
    }
}
