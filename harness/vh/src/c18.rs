//! C18 — vector search returns real, correctly scored, correctly ordered neighbours.
//!
//! Monitors (all judged against f64 scalar definitions written here, `c18_ref.rs`):
//!  (a) HNSW history monitor: random histories of insert / re-insert / remove / search / batch
//!      search on `HnswIndex`; after every search: <= k results, distinct ids, every id
//!      currently present, every distance == the definition within a sound bound,
//!      non-decreasing order, and — where justified — exactly min(k, len) results / the true
//!      k nearest.
//!  (b) `brute_force_knn` (+ filtered, `batch_distances`) == true k nearest (multiset).
//!  (c) kernel differential: every public function of `distance.rs` over dims 1..=67,128,385.
//!  (d) quantisers (scalar / binary / product) and `QuantizedHnswIndex` histories.
//!  (e) batch search == one-by-one; `GrafeoDB::create_vector_index` / `vector_search` /
//!      `batch_vector_search` end to end.
//!
//! Rule for the clause "returns k whenever >= k vectors are reachable" (decided after
//! reading `HnswIndex::search_layer`): the layer-0 beam only stops early once it holds `ef`
//! results (`results.len() >= ef` is part of the break condition), so a result shorter than
//! min(k, len) means the links reachable from the entry point were exhausted. Without a
//! hook the graph is not observable, so reachability has to be argued from the public API:
//! the clause is demanded iff the history so far consists of inserts of distinct ids only
//! (no remove, no re-insert) and len <= m_max + 1. Then no neighbour list can have exceeded
//! m_max (pruning — the only thing that makes a link one-directional — never ran), every
//! insert attached the new node by at least one bidirectional layer-0 link to a node found
//! from the entry point, hence layer 0 is connected and the beam must deliver min(k, len).
//! If additionally max(ef, k) >= len the beam visits every node, so the result must be the
//! true k nearest (multiset of distances). Everywhere else the clause is skipped and counted
//! (`*.length_clause_skipped.*`, `*.short_result_where_not_demanded.*`).

#[path = "c18_ref.rs"]
mod refs;
#[path = "c18_kernel.rs"]
mod kernel;
#[path = "c18_quant.rs"]
mod quant;
#[path = "c18_index.rs"]
mod index;
#[path = "c18_engine.rs"]
mod engine;

use crate::report::{Report, Tier};
use refs::Acc;
use serde_json::json;

/// Run `n` independent cases on worker threads; results are merged in case order so that
/// the report does not depend on scheduling.
fn par_cases(rep: &mut Report, n: u64, f: impl Fn(&mut Acc, u64) + Sync) {
    let threads = std::thread::available_parallelism().map(|x| x.get()).unwrap_or(4).min(16) as u64;
    let next = std::sync::atomic::AtomicU64::new(0);
    let mut all: Vec<(u64, Acc)> = std::thread::scope(|s| {
        let hs: Vec<_> = (0..threads)
            .map(|_| {
                s.spawn(|| {
                    let mut out = Vec::new();
                    loop {
                        let i = next.fetch_add(1, std::sync::atomic::Ordering::Relaxed);
                        if i >= n {
                            break;
                        }
                        let mut acc = Acc::default();
                        // a panic that escaped the per-call catch: inside the engine (a call the
                        // monitor does not expect to panic) it is a deviation, inside the
                        // harness it makes the run inconclusive - never silent
                        if let Err(p) = crate::util::catch(|| f(&mut acc, i)) {
                            if p.site.starts_with("crates/") {
                                acc.dev(&format!("uncaught_panic@{}", p.site), || json!({"at": p.at, "msg": p.msg, "case": i}));
                            } else {
                                acc.inconclusive.push(format!("harness panic in case {i} at {}: {}", p.at, p.msg));
                            }
                        }
                        out.push((i, acc));
                    }
                    out
                })
            })
            .collect();
        hs.into_iter().flat_map(|h| h.join().expect("worker")).collect()
    });
    all.sort_by_key(|x| x.0);
    for (_, a) in all {
        a.merge_into(rep);
    }
}

pub fn run(tier: Tier, seed: u64) -> ! {
    let mut rep = Report::new("C18", tier, seed, "exploration");
    rep.max_samples = 12;
    rep.rule = "directed (seed-independent) matrices: every public distance kernel x dims 1..=67,128,385 x 11 magnitude kinds x 5 relations \
        (equal/opposite/scaled/independent/mixed kinds), and small insert-only HNSW indexes x 4 metrics x 12 dims x k,ef in {0,1,2,len-1,len,len+5}; \
        random (seeded): kernel pairs, brute-force cases, quantiser trainings, HNSW and QuantizedHnswIndex histories (2..600 ops of insert / re-insert / \
        remove / search / batch, zero / duplicate / 1e+-30 / small-norm vectors, m in {2,3,4,8,16}), engine cases. non-trivial = history with >= 2 inserts \
        and >= 1 search, kernel pair of non-zero vectors with dim > 1, exact-search case with n >= 2 and k >= 1, quantiser trained on >= 2 vectors; \
        distinct by generator coordinates".into();
    rep.extra.insert("simd_support".into(), json!(grafeo_core::index::vector::simd_support()));
    rep.extra.insert("profile".into(), json!(if cfg!(debug_assertions) { "dev" } else { "release" }));

    let mut marks: Vec<(String, f64)> = Vec::new();
    macro_rules! mark {
        ($n:expr) => {
            marks.push(($n.to_string(), rep.elapsed()));
        };
    }
    // (c) kernels
    let mut a = Acc::default();
    kernel::kernel_matrix(&mut a);
    a.merge_into(&mut rep);
    let chunks: u64 = tier.pick(160, 2000);
    let per_chunk: usize = tier.pick(3125, 5000);
    par_cases(&mut rep, chunks, |acc, c| kernel::kernel_random(acc, seed, c, per_chunk));

    mark!("kernels");
    // (b) exact search
    par_cases(&mut rep, tier.pick(12_000, 100_000), |acc, c| kernel::brute_case(acc, seed, c));

    mark!("brute_force");
    // (d) quantisers
    par_cases(&mut rep, tier.pick(5000, 60_000), |acc, c| quant::scalar_case(acc, seed, c));
    par_cases(&mut rep, tier.pick(8000, 200_000), |acc, c| quant::binary_case(acc, seed, c));
    par_cases(&mut rep, tier.pick(600, 20_000), |acc, c| quant::product_case(acc, seed, c, tier == Tier::Thorough || c % 10 == 0));

    mark!("quantisers");
    // (a) HNSW histories, directed then random; (d)/(e) quantised index histories
    let mut a = Acc::default();
    index::directed_small(&mut a);
    index::reinsert_probe(&mut a);
    a.merge_into(&mut rep);
    let long = tier == Tier::Thorough;
    par_cases(&mut rep, tier.pick(50_000, 300_000), |acc, c| index::history_case(acc, seed, c, false, long || c % 8 == 0));
    par_cases(&mut rep, tier.pick(20_000, 120_000), |acc, c| index::history_case(acc, seed, c, true, long || c % 8 == 0));

    mark!("index_histories");
    // (e) engine
    par_cases(&mut rep, tier.pick(4000, 20_000), |acc, c| engine::engine_case(acc, seed, c));

    mark!("engine");
    // informational only (never part of a verdict)
    rep.extra.insert("elapsed_s_after_section".into(), json!(marks));
    rep.assumptions = vec![
        "error bound of an f32 kernel of length n against the f64 definition: 4*gamma_(n+4)*S + 1e-6, gamma_n = n*2^-24/(1-n*2^-24), S = sum of |terms| (dot: sum|a_i b_i|; \
         euclidean / manhattan: the result itself, all terms being non-negative; cosine: sum|a_i b_i|/(|a||b|) + 1). Demanded only where the f32 error model holds: all inputs finite, \
         no exact intermediate above 1e37, for cosine both squared norms in [1e-30, 1e37] and non-zero; everything else only has to return without panicking (counted as *_no_panic_only)".into(),
        "the clause 'returns k whenever >= k reachable' is demanded only for insert-only histories of distinct ids with len <= m_max+1 (rule in the module header); exactness additionally needs max(ef,k) >= len".into(),
        "no numeric error bound is documented for any quantiser: scalar is held to one quantisation step per component inside the trained range (256 levels) and the triangle inequality, \
         binary and product to their documented definitions, cosine_distance_u8 and binary search without rescoring to sanity only; rank correlation is not demanded".into(),
        "QuantizedHnswIndex with product quantisation and rescoring chooses its k by the PQ estimate (documented): exactness is not demanded there".into(),
        "GrafeoDB builds its index with an OS-seeded level generator: engine cases are judged by clauses that hold for every level assignment".into(),
        "documented panics are respected: equal lengths for kernels, query/vector dimension == index dimension, product quantiser dims divisible by num_subvectors, 1 <= num_centroids <= 256, m >= 2".into(),
        "not covered here: zone_map.rs and storage.rs are not on any search path of the crate (no caller of VectorZoneMap / VectorStorage outside their own files)".into(),
    ];
    rep.finish()
}
