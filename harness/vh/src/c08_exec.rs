//! C08/C11 shared: run a rendered query through one front end, normalise the outcome, and
//! judge a result against the reference rows (modulo the freedoms the standards leave).

use super::ast::*;
use super::eval::{Row, class, loose_cols, rowkey, sort_cmp};
use super::render::{Lang, Rendered};
use crate::util::{Panic, catch};
use grafeo_common::types::Value;
use grafeo_engine::GrafeoDB;
use std::cmp::Ordering;
use std::collections::BTreeMap;

pub enum Outcome {
    Rows(Vec<Row>),
    /// the front end does not accept the text
    Syntax(String),
    /// accepted, then refused (planner/binder/executor error); (class, full message)
    Error(String, String),
    Panic(Panic),
    /// result does not have the expected columns
    Shape(String),
}

pub fn err_class(msg: &str) -> String {
    let line = msg.lines().next().unwrap_or("");
    let mut out = String::new();
    let mut chars = line.chars().peekable();
    while let Some(c) = chars.next() {
        match c {
            '\'' | '"' => {
                out.push('_');
                for d in chars.by_ref() {
                    if d == c {
                        break;
                    }
                }
            }
            '{' | '[' | '(' => break,
            d if d.is_ascii_digit() => {
                if !out.ends_with('#') {
                    out.push('#');
                }
            }
            other => out.push(other),
        }
    }
    out.trim().chars().take(100).collect()
}

pub fn execute(db: &GrafeoDB, lang: Lang, text: &str) -> Result<Result<grafeo_engine::database::QueryResult, String>, Panic> {
    catch(|| {
        let r = match lang {
            Lang::Gql => db.execute(text),
            Lang::Cypher => db.execute_cypher(text),
            Lang::Gremlin => db.execute_gremlin(text),
            Lang::GraphQL => db.execute_graphql(text),
        };
        r.map_err(|e| e.to_string())
    })
}

pub fn run(db: &GrafeoDB, lang: Lang, r: &Rendered, ncols: usize) -> Outcome {
    match execute(db, lang, &r.text) {
        Err(p) => Outcome::Panic(p),
        Ok(Err(msg)) => {
            if msg.contains("syntax error") || msg.contains("Syntax") || msg.contains("Unexpected") {
                Outcome::Syntax(err_class(&msg))
            } else {
                Outcome::Error(err_class(&msg), msg)
            }
        }
        Ok(Ok(res)) => match &r.cols {
            None => {
                if res.columns.len() != ncols {
                    return Outcome::Shape(format!("columns {:?}, expected {ncols}", res.columns));
                }
                Outcome::Rows(res.rows)
            }
            Some(names) => {
                let mut idx = Vec::new();
                for n in names {
                    match res.columns.iter().position(|c| c == n) {
                        Some(i) => idx.push(i),
                        None => return Outcome::Shape(format!("columns {:?}, expected to contain {names:?}", res.columns)),
                    }
                }
                Outcome::Rows(res.rows.iter().map(|row| idx.iter().map(|i| row[*i].clone()).collect()).collect())
            }
        },
    }
}

#[derive(Clone, Debug, PartialEq, Eq)]
pub struct Mismatch {
    pub kind: &'static str,
    pub note: String,
}

fn multiset(rows: &[Row], loose: &[bool]) -> BTreeMap<String, i64> {
    let mut m = BTreeMap::new();
    for r in rows {
        *m.entry(rowkey(r, loose)).or_insert(0) += 1;
    }
    m
}

/// key tuples compare: None when some pair is not comparable (null / different kinds)
fn cmp_keys(q: &Query, a: &Row, b: &Row) -> Option<Ordering> {
    for o in &q.order {
        let (x, y) = (&a[o.col], &b[o.col]);
        if class(x) == 0 && class(y) == 0 {
            continue;
        }
        let c = sort_cmp(x, y)?;
        let c = if o.desc { c.reverse() } else { c };
        if c != Ordering::Equal {
            return Some(c);
        }
    }
    Some(Ordering::Equal)
}

/// total comparison used to build the reference order under one null-placement mode
/// mode: 0 nulls last, 1 nulls first, 2 nulls largest, 3 nulls smallest
fn total_cmp(q: &Query, a: &Row, b: &Row, mode: u8) -> Ordering {
    for o in &q.order {
        let (x, y) = (&a[o.col], &b[o.col]);
        let c = match (class(x) == 0, class(y) == 0) {
            (true, true) => Ordering::Equal,
            (true, false) | (false, true) => {
                let x_null = class(x) == 0;
                // where does the null go relative to the value, in output order?
                let null_first = match mode {
                    0 => false,
                    1 => true,
                    2 => o.desc,
                    _ => !o.desc,
                };
                if x_null == null_first { Ordering::Less } else { Ordering::Greater }
            }
            (false, false) => {
                let c = sort_cmp(x, y).unwrap_or(Ordering::Equal);
                if o.desc { c.reverse() } else { c }
            }
        };
        if c != Ordering::Equal {
            return c;
        }
    }
    Ordering::Equal
}

fn order_key(q: &Query, r: &Row) -> String {
    q.order.iter().map(|o| super::eval::vkey(&r[o.col], true)).collect::<Vec<_>>().join("|")
}

#[derive(Clone, Copy, Debug, Default)]
pub struct JudgeOpts {
    /// SKIP/LIMIT applied before ORDER BY (rule GqlWindowFirst): any window of the right size
    pub window_first: bool,
    /// the sort-key columns returned are not the values sorted on (rule EdgeColTypeLost)
    pub no_order_check: bool,
}

/// Judge `got` against the reference rows `full` (after DISTINCT, before ORDER/SKIP/LIMIT).
pub fn judge(q: &Query, full: &[Row], got: &[Row], opts: JudgeOpts) -> Option<Mismatch> {
    let loose = loose_cols(q);
    let fm = multiset(full, &loose);
    let gm = multiset(got, &loose);
    let windowed = q.skip.is_some() || q.limit.is_some();
    if !windowed {
        if fm != gm {
            let missing: i64 = fm.iter().map(|(k, n)| (n - gm.get(k).copied().unwrap_or(0)).max(0)).sum();
            let extra: i64 = gm.iter().map(|(k, n)| (n - fm.get(k).copied().unwrap_or(0)).max(0)).sum();
            let kind = if got.len() < full.len() {
                "missing_rows"
            } else if got.len() > full.len() {
                "extra_rows"
            } else {
                "wrong_value"
            };
            return Some(Mismatch { kind, note: format!("expected {} rows, got {}; {missing} expected rows absent, {extra} unexpected rows present", full.len(), got.len()) });
        }
    } else {
        let s = q.skip.unwrap_or(0) as usize;
        let n = full.len().saturating_sub(s).min(q.limit.map(|l| l as usize).unwrap_or(usize::MAX));
        if got.len() != n {
            return Some(Mismatch {
                kind: if got.len() < n { "missing_rows" } else { "extra_rows" },
                note: format!("window of {} rows skip {:?} limit {:?} must have {n} rows, got {}", full.len(), q.skip, q.limit, got.len()),
            });
        }
        for (k, c) in &gm {
            if fm.get(k).copied().unwrap_or(0) < *c {
                return Some(Mismatch { kind: "wrong_value", note: format!("row {k} returned {c}x but occurs {}x in the full result", fm.get(k).copied().unwrap_or(0)) });
            }
        }
    }
    if q.order.is_empty() || opts.no_order_check {
        return None;
    }
    // sortedness of what was returned (pairs that are comparable)
    for w in got.windows(2) {
        if cmp_keys(q, &w[0], &w[1]) == Some(Ordering::Greater) {
            return Some(Mismatch { kind: "wrong_order", note: format!("adjacent rows out of order: {:?} then {:?}", w[0], w[1]) });
        }
    }
    // nulls must be contiguous at one end per leading key: covered by the window check below
    if windowed && !opts.window_first {
        // one kind per key column, else the order between kinds is implementation-defined
        for o in &q.order {
            let mut kinds = std::collections::BTreeSet::new();
            for r in full {
                if class(&r[o.col]) != 0 {
                    kinds.insert(class(&r[o.col]));
                }
            }
            if kinds.len() > 1 {
                return None;
            }
        }
        let s = q.skip.unwrap_or(0) as usize;
        let gk: Vec<String> = got.iter().map(|r| order_key(q, r)).collect();
        let mut ok = false;
        for mode in 0..4u8 {
            let mut sorted: Vec<&Row> = full.iter().collect();
            sorted.sort_by(|a, b| total_cmp(q, a, b, mode));
            let ek: Vec<String> = sorted.iter().skip(s).take(got.len()).map(|r| order_key(q, r)).collect();
            if ek == gk {
                ok = true;
                break;
            }
        }
        if !ok {
            return Some(Mismatch { kind: "wrong_order", note: "the rows returned are not rows s..s+n of the ordered result under any null placement".into() });
        }
    }
    None
}

pub fn show_rows(rows: &[Row], max: usize) -> Vec<String> {
    rows.iter().take(max).map(|r| format!("{r:?}")).collect()
}

#[allow(dead_code)]
pub fn is_null(v: &Value) -> bool {
    matches!(v, Value::Null)
}
