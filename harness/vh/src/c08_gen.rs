//! C08/C11 shared: random graph specification, generator, and lock-step construction of an
//! in-memory GrafeoDB (direct API, epoch 0, no transactions) plus the reference Model.

use crate::model::Model;
use crate::rng::Rng;
use crate::vals;
use grafeo_common::types::Value;
use grafeo_engine::GrafeoDB;

pub const LABELS: [&str; 3] = ["P", "Q", "T"];
pub const TYPES: [&str; 2] = ["R", "S"];
/// node property keys (besides `uid`)
pub const NKEYS: [&str; 4] = ["k", "f", "s", "b"];
/// edge property keys (besides `uid`)
/// (disjoint from the node keys: the planner checks edge predicates against the *node* zone map
/// of the same key — finding C08-F27, pinned by a directed cell)
pub const EKEYS: [&str; 2] = ["w", "t"];
pub const STRS: [&str; 6] = ["a", "b", "ab", "ba", "abc", ""];

#[derive(Clone, Debug)]
pub struct GNode {
    pub labels: Vec<String>,
    pub props: Vec<(String, Value)>,
}
#[derive(Clone, Debug)]
pub struct GEdge {
    pub src: usize,
    pub dst: usize,
    pub ty: String,
    pub props: Vec<(String, Value)>,
}
#[derive(Clone, Debug, Default)]
pub struct GraphSpec {
    pub nodes: Vec<GNode>,
    pub edges: Vec<GEdge>,
}

pub struct Built {
    pub db: GrafeoDB,
    pub model: Model,
}

fn half(r: &mut Rng, lo: i64, hi: i64) -> f64 {
    r.range(lo * 2, hi * 2) as f64 / 2.0
}
/// x.5 only (never integral) so that an Int and a Float in one column never compare equal
fn odd_half(r: &mut Rng, lo: i64, hi: i64) -> f64 {
    r.range(lo, hi) as f64 + 0.5
}

/// `k`: heterogeneous, int-dominant; `f`: float; `s`: string-dominant; `b`: bool.
pub fn node_prop(r: &mut Rng, key: &str) -> Option<Value> {
    match key {
        "k" => match r.below(100) {
            0..=57 => Some(Value::Int64(r.range(-2, 5))),
            58..=67 => Some(Value::Float64(odd_half(r, -2, 4))),
            68..=74 => Some(vals::s(*r.pick(&STRS))),
            75..=78 => Some(Value::Bool(r.chance(0.5))),
            79..=83 => Some(Value::Null),
            _ => None,
        },
        "f" => match r.below(100) {
            0..=59 => {
                let x = half(r, -1, 3);
                Some(Value::Float64(if x == 0.0 { 0.0 } else { x }))
            }
            _ => None,
        },
        "s" => match r.below(100) {
            0..=61 => Some(vals::s(*r.pick(&STRS))),
            62..=65 => Some(Value::Null),
            _ => None,
        },
        "b" => match r.below(100) {
            0..=39 => Some(Value::Bool(r.chance(0.5))),
            _ => None,
        },
        _ => None,
    }
}

pub fn edge_prop(r: &mut Rng, key: &str) -> Option<Value> {
    match key {
        "w" => match r.below(100) {
            0..=54 => Some(Value::Int64(r.range(0, 4))),
            55..=64 => Some(Value::Float64(odd_half(r, 0, 3))),
            _ => None,
        },
        "t" => match r.below(100) {
            0..=34 => Some(vals::s(*r.pick(&STRS))),
            _ => None,
        },
        _ => None,
    }
}

/// Random graph: 0..=max_nodes nodes, average out-degree `deg`, self-loops, parallel edges,
/// isolated nodes, 0-2 labels per node.
pub fn random_graph(r: &mut Rng, max_nodes: usize, deg: f64) -> GraphSpec {
    let n = match r.below(20) {
        0 => 0,
        1 => 1,
        2 => 2,
        _ => 3 + r.below(max_nodes.saturating_sub(2).max(1)),
    }
    .min(max_nodes);
    let mut g = GraphSpec::default();
    for i in 0..n {
        let labels: Vec<String> = match r.below(10) {
            0 => vec![],
            1 | 2 => {
                let a = r.below(3);
                let b = (a + 1 + r.below(2)) % 3;
                vec![LABELS[a].to_string(), LABELS[b].to_string()]
            }
            _ => vec![LABELS[r.weighted(&[5, 3, 1])].to_string()],
        };
        let mut props = vec![("uid".to_string(), Value::Int64(i as i64 + 1))];
        for k in NKEYS {
            if let Some(v) = node_prop(r, k) {
                props.push((k.to_string(), v));
            }
        }
        g.nodes.push(GNode { labels, props });
    }
    if n > 0 {
        let m = (n as f64 * deg * r.f64() * 2.0) as usize;
        // a few nodes stay isolated: edges are drawn among a subset
        let live = if n > 3 && r.chance(0.6) { n - 1 - r.below(n / 3 + 1) } else { n };
        for j in 0..m {
            let (src, dst) = match r.below(10) {
                0 => {
                    let s = r.below(live);
                    (s, s)
                }
                1 if !g.edges.is_empty() => {
                    let e = &g.edges[r.below(g.edges.len())];
                    if r.chance(0.5) { (e.src, e.dst) } else { (e.dst, e.src) }
                }
                _ => (r.below(live), r.below(live)),
            };
            let ty = TYPES[r.weighted(&[3, 1])].to_string();
            let mut props = vec![("uid".to_string(), Value::Int64(1000 + j as i64))];
            for k in EKEYS {
                if let Some(v) = edge_prop(r, k) {
                    props.push((k.to_string(), v));
                }
            }
            g.edges.push(GEdge { src, dst, ty, props });
        }
    }
    g
}

/// Graph crossing the 2048-row chunk size of the scan (and of a one-hop expand)
pub fn huge_graph(r: &mut Rng) -> GraphSpec {
    let n = 2650 + r.below(400);
    let mut g = GraphSpec::default();
    for i in 0..n {
        let labels = match r.below(10) {
            0 => vec![],
            1 => vec!["Q".to_string()],
            2 => vec!["P".to_string(), "Q".to_string()],
            _ => vec!["P".to_string()],
        };
        let mut props = vec![("uid".to_string(), Value::Int64(i as i64 + 1))];
        for k in ["k", "s"] {
            if let Some(v) = node_prop(r, k) {
                props.push((k.to_string(), v));
            }
        }
        g.nodes.push(GNode { labels, props });
    }
    let m = if r.chance(0.5) { 2040 + r.below(300) } else { r.below(600) };
    for j in 0..m {
        let (src, dst) = (r.below(n), r.below(n));
        let mut props = vec![("uid".to_string(), Value::Int64(100_000 + j as i64))];
        if let Some(v) = edge_prop(r, "w") {
            props.push(("w".to_string(), v));
        }
        g.edges.push(GEdge { src, dst, ty: TYPES[r.weighted(&[3, 1])].to_string(), props });
    }
    g
}

/// store-wide minimum and maximum of a node property key over the numeric values (what the
/// zone map of that key covers); None when no node carries a number under the key
pub fn key_bounds(g: &GraphSpec, key: &str) -> Option<(Value, Value)> {
    let num = |v: &Value| match v {
        Value::Int64(i) => Some(*i as f64),
        Value::Float64(f) => Some(*f),
        _ => None,
    };
    let mut best: Option<(Value, Value)> = None;
    for n in &g.nodes {
        for (k, v) in &n.props {
            if k == key {
                if let Some(x) = num(v) {
                    best = Some(match best {
                        None => (v.clone(), v.clone()),
                        Some((lo, hi)) => (if x < num(&lo).unwrap() { v.clone() } else { lo }, if x > num(&hi).unwrap() { v.clone() } else { hi }),
                    });
                }
            }
        }
    }
    best
}

/// Fill an in-memory database through the direct API and the model in lock-step.
pub fn build(g: &GraphSpec) -> Built {
    let db = GrafeoDB::new_in_memory();
    let mut model = Model::default();
    let mut ids = Vec::with_capacity(g.nodes.len());
    for n in &g.nodes {
        let labels: Vec<&str> = n.labels.iter().map(String::as_str).collect();
        let id = db.create_node_with_props(&labels, n.props.iter().map(|(k, v)| (k.as_str(), v.clone())));
        let props: Vec<(&str, Value)> = n.props.iter().map(|(k, v)| (k.as_str(), v.clone())).collect();
        model.add_node(id.as_u64(), &labels, &props);
        ids.push(id);
    }
    for e in &g.edges {
        let id = db.create_edge_with_props(ids[e.src], ids[e.dst], &e.ty, e.props.iter().map(|(k, v)| (k.as_str(), v.clone())));
        let props: Vec<(&str, Value)> = e.props.iter().map(|(k, v)| (k.as_str(), v.clone())).collect();
        model.add_edge(id.as_u64(), ids[e.src].as_u64(), ids[e.dst].as_u64(), &e.ty, &props);
    }
    Built { db, model }
}

impl GraphSpec {
    pub fn without_node(&self, i: usize) -> GraphSpec {
        let mut g = GraphSpec::default();
        for (j, n) in self.nodes.iter().enumerate() {
            if j != i {
                g.nodes.push(n.clone());
            }
        }
        for e in &self.edges {
            if e.src == i || e.dst == i {
                continue;
            }
            let mut e = e.clone();
            if e.src > i {
                e.src -= 1;
            }
            if e.dst > i {
                e.dst -= 1;
            }
            g.edges.push(e);
        }
        g
    }
    pub fn without_edge(&self, i: usize) -> GraphSpec {
        let mut g = self.clone();
        g.edges.remove(i);
        g
    }
    pub fn to_json(&self) -> serde_json::Value {
        let nodes: Vec<String> = self
            .nodes
            .iter()
            .map(|n| {
                format!(
                    "({}{{{}}})",
                    n.labels.iter().map(|l| format!(":{l}")).collect::<String>(),
                    n.props.iter().map(|(k, v)| format!("{k}:{}", lit(v))).collect::<Vec<_>>().join(",")
                )
            })
            .collect();
        let edges: Vec<String> = self
            .edges
            .iter()
            .map(|e| {
                format!(
                    "(uid {})-[:{}{{{}}}]->(uid {})",
                    uid_of(&self.nodes[e.src]),
                    e.ty,
                    e.props.iter().map(|(k, v)| format!("{k}:{}", lit(v))).collect::<Vec<_>>().join(","),
                    uid_of(&self.nodes[e.dst])
                )
            })
            .collect();
        serde_json::json!({"nodes": nodes, "edges": edges})
    }
}

fn uid_of(n: &GNode) -> String {
    n.props.iter().find(|(k, _)| k == "uid").map(|(_, v)| lit(v)).unwrap_or_default()
}

/// literal in GQL/Cypher syntax
pub fn lit(v: &Value) -> String {
    match v {
        Value::Null => "null".into(),
        Value::Bool(b) => b.to_string(),
        Value::Int64(i) => i.to_string(),
        Value::Float64(f) => format!("{f:?}"),
        Value::String(s) => format!("'{}'", s.as_str()),
        other => format!("{other:?}"),
    }
}
