//! Harness side of the `--cfg grafeo_verif` hooks: one process-wide handler that serves
//! switches (flags / fail points / overrides), records events, and counts site hits.
use parking_lot::Mutex;
use std::collections::BTreeMap;
use std::sync::atomic::{AtomicBool, AtomicU64, Ordering};

pub static FAIL_COMMIT: AtomicBool = AtomicBool::new(false);
pub static NO_ZONE_MAP: AtomicBool = AtomicBool::new(false);
pub static NO_INDEX_PATH: AtomicBool = AtomicBool::new(false);
pub static NO_RANGE_PATH: AtomicBool = AtomicBool::new(false);
/// 0 = no override
pub static WAL_MAX_LOG_SIZE: AtomicU64 = AtomicU64::new(0);
pub static RECORD_EVENTS: AtomicBool = AtomicBool::new(false);
pub static EVENTS: Mutex<Vec<(&'static str, u64, u64)>> = Mutex::new(Vec::new());
pub static HITS: Mutex<BTreeMap<&'static str, u64>> = Mutex::new(BTreeMap::new());
pub static COUNT_HITS: AtomicBool = AtomicBool::new(false);

// ---- scheduling control over the yield points -------------------------------------------
//
// preemption: the thread marked with `mark_preemptible()` parks when it reaches PREEMPT_SITE
// (state 1 -> 2) until the controller sets state 3 (or a timeout passes); this lets a second
// thread run a whole operation inside the window between two critical sections of the first.
// chaos: every yield point spins / yields / sleeps according to a per-thread xorshift stream.
pub static PREEMPT_SITE: Mutex<Option<&'static str>> = Mutex::new(None);
pub static PREEMPT_STATE: AtomicU64 = AtomicU64::new(0);
pub static CHAOS_SEED: AtomicU64 = AtomicU64::new(0);
thread_local! {
    static PREEMPTIBLE: std::cell::Cell<bool> = const { std::cell::Cell::new(false) };
    static CHAOS_RNG: std::cell::Cell<u64> = const { std::cell::Cell::new(0) };
}

pub fn mark_preemptible(on: bool) {
    PREEMPTIBLE.with(|p| p.set(on));
}

pub fn arm_preemption(site: &'static str) {
    *PREEMPT_SITE.lock() = Some(site);
    PREEMPT_STATE.store(1, Ordering::SeqCst);
}

pub fn disarm_preemption() {
    *PREEMPT_SITE.lock() = None;
    PREEMPT_STATE.store(0, Ordering::SeqCst);
}

fn yield_behaviour(site: &'static str) {
    if PREEMPT_STATE.load(Ordering::SeqCst) == 1 && PREEMPTIBLE.with(|p| p.get()) {
        let target = *PREEMPT_SITE.lock();
        if target == Some(site) && PREEMPT_STATE.compare_exchange(1, 2, Ordering::SeqCst, Ordering::SeqCst).is_ok() {
            let start = std::time::Instant::now();
            while PREEMPT_STATE.load(Ordering::SeqCst) == 2 && start.elapsed() < std::time::Duration::from_secs(5) {
                std::thread::yield_now();
            }
            return;
        }
    }
    let seed = CHAOS_SEED.load(Ordering::Relaxed);
    if seed != 0 {
        let mut x = CHAOS_RNG.with(|c| c.get());
        if x == 0 {
            // per-thread stream
            let tid = format!("{:?}", std::thread::current().id());
            x = seed ^ crate::rng::hash_str(&tid) | 1;
        }
        x ^= x << 13;
        x ^= x >> 7;
        x ^= x << 17;
        CHAOS_RNG.with(|c| c.set(x));
        match x % 16 {
            0..=7 => {}
            8..=11 => std::thread::yield_now(),
            12..=13 => {
                for _ in 0..(x >> 8) % 2000 {
                    std::hint::spin_loop();
                }
            }
            _ => std::thread::sleep(std::time::Duration::from_micros(10 + (x >> 8) % 300)),
        }
    }
}

fn handler(site: &'static str, a: u64, b: u64) -> u64 {
    if COUNT_HITS.load(Ordering::Relaxed) {
        *HITS.lock().entry(site).or_insert(0) += 1;
    }
    match site {
        "txmgr.commit" => u64::from(FAIL_COMMIT.load(Ordering::SeqCst)),
        "planner.no_zone_map" => u64::from(NO_ZONE_MAP.load(Ordering::SeqCst)),
        "planner.no_index_path" => u64::from(NO_INDEX_PATH.load(Ordering::SeqCst)),
        "planner.no_range_path" => u64::from(NO_RANGE_PATH.load(Ordering::SeqCst)),
        "wal.max_log_size" => WAL_MAX_LOG_SIZE.load(Ordering::SeqCst),
        _ => {
            if site.starts_with("wal.") {
                if RECORD_EVENTS.load(Ordering::Relaxed) {
                    EVENTS.lock().push((site, a, b));
                }
            } else {
                yield_behaviour(site);
            }
            0
        }
    }
}

pub fn install() {
    grafeo_common::verif::install(handler);
}

pub fn take_events() -> Vec<(&'static str, u64, u64)> {
    std::mem::take(&mut *EVENTS.lock())
}

pub fn hits() -> BTreeMap<&'static str, u64> {
    HITS.lock().clone()
}
