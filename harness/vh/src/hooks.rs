//! Harness side of the `--cfg grafeo_verif` hooks: one process-wide handler that serves
//! switches (flags / fail points / overrides), records events, and counts site hits.
use parking_lot::Mutex;
use std::collections::BTreeMap;
use std::sync::atomic::{AtomicBool, AtomicU64, Ordering};

pub static FAIL_COMMIT: AtomicBool = AtomicBool::new(false);
pub static NO_ZONE_MAP: AtomicBool = AtomicBool::new(false);
pub static NO_INDEX_PATH: AtomicBool = AtomicBool::new(false);
pub static NO_RANGE_PATH: AtomicBool = AtomicBool::new(false);
/// 0 = no override
pub static WAL_MAX_LOG_SIZE: AtomicU64 = AtomicU64::new(0);
pub static RECORD_EVENTS: AtomicBool = AtomicBool::new(false);
pub static EVENTS: Mutex<Vec<(&'static str, u64, u64)>> = Mutex::new(Vec::new());
pub static HITS: Mutex<BTreeMap<&'static str, u64>> = Mutex::new(BTreeMap::new());
pub static COUNT_HITS: AtomicBool = AtomicBool::new(false);

fn handler(site: &'static str, a: u64, b: u64) -> u64 {
    if COUNT_HITS.load(Ordering::Relaxed) {
        *HITS.lock().entry(site).or_insert(0) += 1;
    }
    match site {
        "txmgr.commit" => u64::from(FAIL_COMMIT.load(Ordering::SeqCst)),
        "planner.no_zone_map" => u64::from(NO_ZONE_MAP.load(Ordering::SeqCst)),
        "planner.no_index_path" => u64::from(NO_INDEX_PATH.load(Ordering::SeqCst)),
        "planner.no_range_path" => u64::from(NO_RANGE_PATH.load(Ordering::SeqCst)),
        "wal.max_log_size" => WAL_MAX_LOG_SIZE.load(Ordering::SeqCst),
        _ => {
            if site.starts_with("wal.") && RECORD_EVENTS.load(Ordering::Relaxed) {
                EVENTS.lock().push((site, a, b));
            }
            0
        }
    }
}

pub fn install() {
    grafeo_common::verif::install(handler);
}

pub fn take_events() -> Vec<(&'static str, u64, u64)> {
    std::mem::take(&mut *EVENTS.lock())
}

pub fn hits() -> BTreeMap<&'static str, u64> {
    HITS.lock().clone()
}
