//! C19 — graph model, generator, store builder, deviation collector.

use super::oracle::P;
use crate::rng::Rng;
use grafeo_common::types::{EdgeId, NodeId, Value};
use grafeo_core::graph::lpg::LpgStore;
use serde_json::{Value as J, json};
use std::collections::{BTreeMap, HashMap};
use std::sync::Mutex;

pub const W: &str = "w";
pub const CAP: &str = "cap";
pub const COST: &str = "cost";

/// A numeric edge property: absent, Int64 or Float64.
#[derive(Clone, Copy, Debug, PartialEq)]
pub enum Num {
    Miss,
    I(i64),
    F(f64),
}

impl Num {
    pub fn or(self, d: f64) -> f64 {
        match self {
            Num::Miss => d,
            Num::I(i) => i as f64,
            Num::F(f) => f,
        }
    }
    pub fn show(self) -> String {
        match self {
            Num::Miss => "-".into(),
            Num::I(i) => format!("{i}"),
            Num::F(f) => format!("{f:?}"),
        }
    }
    fn value(self) -> Option<Value> {
        match self {
            Num::Miss => None,
            Num::I(i) => Some(Value::Int64(i)),
            Num::F(f) => Some(Value::Float64(f)),
        }
    }
    /// simplification rank used by the reducer (smaller = simpler)
    pub fn rank(self) -> u32 {
        match self {
            Num::Miss => 0,
            Num::I(1) => 1,
            Num::I(2) => 2,
            Num::I(0) => 3,
            Num::I(-1) => 4,
            _ => 5,
        }
    }
    pub const LADDER: [Num; 5] = [Num::Miss, Num::I(1), Num::I(2), Num::I(0), Num::I(-1)];
}

#[derive(Clone, Debug, PartialEq)]
pub struct Edge {
    pub u: usize,
    pub v: usize,
    pub w: Num,
    pub cap: Num,
    pub cost: Num,
}

#[derive(Clone, Debug, PartialEq)]
pub struct G {
    pub n: usize,
    pub edges: Vec<Edge>,
    /// gaps[i]: a throw-away node is created and deleted right before node i (id gap)
    pub gaps: Vec<bool>,
    /// pass Some("w") as weight property (else None: every edge weighs 1.0)
    pub use_w: bool,
    /// pass Some("cap") / Some("cost") (else None: capacity 1.0, cost 0.0)
    pub use_cap: bool,
}

impl G {
    pub fn plain(&self) -> P {
        P {
            n: self.n,
            e: self.edges.iter().map(|e| (e.u, e.v)).collect(),
            w: self.edges.iter().map(|e| if self.use_w { e.w.or(1.0) } else { 1.0 }).collect(),
            cap: self.edges.iter().map(|e| if self.use_cap { e.cap.or(1.0) } else { 1.0 }).collect(),
            cost: self.edges.iter().map(|e| if self.use_cap { e.cost.or(0.0) } else { 0.0 }).collect(),
        }
    }
    pub fn edge_str(&self, e: &Edge) -> String {
        let mut s = format!("{}>{}", e.u, e.v);
        if e.w != Num::Miss {
            s += &format!(":w={}", e.w.show());
        }
        if e.cap != Num::Miss {
            s += &format!(":c={}", e.cap.show());
        }
        if e.cost != Num::Miss {
            s += &format!(":k={}", e.cost.show());
        }
        s
    }
    /// canonical skeleton: node count, sorted edge multiset, flags that matter
    pub fn skeleton(&self) -> String {
        let mut es: Vec<String> = self.edges.iter().map(|e| self.edge_str(e)).collect();
        es.sort();
        let mut s = format!("n{}|{}", self.n, es.join(","));
        if self.use_w {
            s += "|wprop";
        }
        if self.use_cap {
            s += "|capprop";
        }
        if self.gaps.iter().any(|g| *g) {
            s += &format!("|gaps={}", self.gaps.iter().map(|g| if *g { '1' } else { '0' }).collect::<String>());
        }
        s
    }
    /// feature class of a (reduced) witness: which multigraph features are present in it.
    /// After 1-minimal reduction these are the features the failure needs.
    pub fn feature_class(&self) -> String {
        let p = self.plain();
        let mut f: Vec<&str> = Vec::new();
        let mut dir = vec![vec![0usize; self.n]; self.n];
        for e in &self.edges {
            dir[e.u][e.v] += 1;
        }
        if self.edges.iter().any(|e| e.u == e.v) {
            f.push("self_loop");
        }
        if (0..self.n).any(|u| (0..self.n).any(|v| dir[u][v] > 1)) {
            f.push("parallel");
        }
        if (0..self.n).any(|u| (0..self.n).any(|v| u < v && dir[u][v] > 0 && dir[v][u] > 0)) {
            f.push("antiparallel");
        }
        if self.use_w {
            f.push("weights");
            if p.w.iter().any(|w| *w < 0.0) {
                f.push("negative");
            }
        }
        if self.use_cap {
            f.push("capacities");
        }
        if self.gaps.iter().any(|g| *g) {
            f.push("id_gaps");
        }
        if f.is_empty() { "plain".to_string() } else { f.join("+") }
    }
    /// literal form, creation order kept
    pub fn show(&self) -> String {
        let es: Vec<String> = self.edges.iter().map(|e| self.edge_str(e)).collect();
        format!(
            "n={} edges(creation order)=[{}] weight_property={} capacity/cost_property={} id_gaps_before={:?}",
            self.n,
            es.join(", "),
            if self.use_w { "Some(\"w\")" } else { "None" },
            if self.use_cap { "Some(\"cap\")/Some(\"cost\")" } else { "None" },
            self.gaps.iter().enumerate().filter(|(_, g)| **g).map(|(i, _)| i).collect::<Vec<_>>()
        )
    }
    pub fn to_json(&self) -> J {
        json!(self.show())
    }
    pub fn hash(&self) -> u64 {
        crate::rng::hash_str(&self.show())
    }
    pub fn remove_node(&self, i: usize) -> G {
        let mut g = self.clone();
        g.n -= 1;
        g.gaps.remove(i);
        g.edges.retain(|e| e.u != i && e.v != i);
        for e in &mut g.edges {
            if e.u > i {
                e.u -= 1;
            }
            if e.v > i {
                e.v -= 1;
            }
        }
        g
    }
    /// structural features (for evidence counters)
    pub fn features(&self) -> Vec<&'static str> {
        let p = self.plain();
        let mut f = Vec::new();
        let m = p.und_mult();
        if self.edges.iter().any(|e| e.u == e.v) {
            f.push("self_loop");
        }
        let mut dir = vec![vec![0usize; self.n]; self.n];
        for e in &self.edges {
            dir[e.u][e.v] += 1;
        }
        if (0..self.n).any(|u| (0..self.n).any(|v| dir[u][v] > 1)) {
            f.push("parallel_edges");
        }
        if (0..self.n).any(|u| (0..self.n).any(|v| u != v && dir[u][v] > 0 && dir[v][u] > 0)) {
            f.push("antiparallel_edges");
        }
        if (0..self.n).any(|v| (0..self.n).all(|u| m[v][u] == 0)) {
            f.push("isolated_node");
        }
        if p.n_weak(None, None) > 1 {
            f.push("disconnected");
        }
        if self.use_w {
            f.push("weight_property_given");
            if p.w.iter().any(|w| *w < 0.0) {
                f.push("negative_weight");
            }
            if p.w.iter().any(|w| *w == 0.0) {
                f.push("zero_weight");
            }
            if self.edges.iter().any(|e| e.w == Num::Miss) {
                f.push("missing_weight");
            }
            let mut ws = p.w.clone();
            ws.sort_by(|a, b| a.partial_cmp(b).unwrap());
            if ws.windows(2).any(|x| x[0] == x[1]) {
                f.push("equal_weights");
            }
            if p.fw().1 {
                f.push("negative_cycle");
            }
        } else {
            f.push("unweighted_call");
        }
        if !p.has_cycle() {
            f.push("acyclic");
        }
        if self.gaps.iter().any(|g| *g) {
            f.push("node_id_gaps");
        }
        if self.edges.is_empty() {
            f.push("no_edges");
        }
        f
    }
}

// ------------------------------------------------------------------------------------------
// generator
// ------------------------------------------------------------------------------------------

const NONNEG: &[f64] = &[0.0, 0.0, 0.5, 1.0, 1.0, 1.0, 2.0, 2.0, 3.0, 5.0, 1.5, 2.5];
const NEGS: &[f64] = &[-1.0, -1.0, -2.0, -0.5, -3.0];

fn num(r: &mut Rng, v: f64) -> Num {
    if v.fract() == 0.0 && r.chance(0.5) { Num::I(v as i64) } else { Num::F(v) }
}

pub fn gen_graph(r: &mut Rng) -> G {
    let n = 1 + r.weighted(&[1, 3, 5, 6, 6, 6, 5, 4, 4]);
    let shape = r.weighted(&[6, 3, 3, 3, 2, 2, 2, 1]);
    let max_m = 24usize;
    let p_loop = *r.pick(&[0.0, 0.0, 0.0, 0.08, 0.25]);
    let p_par = *r.pick(&[0.0, 0.0, 0.15, 0.4]);
    // nodes that must stay isolated
    let mut iso = vec![false; n];
    if n > 1 && r.chance(0.3) {
        for _ in 0..1 + r.below(2) {
            iso[r.below(n)] = true;
        }
    }
    let live: Vec<usize> = (0..n).filter(|i| !iso[*i]).collect();
    let mut pairs: Vec<(usize, usize)> = Vec::new();
    if !live.is_empty() {
        let k = live.len();
        let pickn = |r: &mut Rng| live[r.below(k)];
        match shape {
            0 | 1 => {
                // random sparse / dense
                let m = if shape == 0 { r.below((2 * k).min(max_m) + 1) } else { r.below(max_m + 1) };
                for _ in 0..m {
                    pairs.push((pickn(r), pickn(r)));
                }
            }
            2 => {
                // DAG: edges only from smaller to larger position in a random order
                let mut ord = live.clone();
                r.shuffle(&mut ord);
                let m = r.below((3 * k).min(max_m) + 1);
                for _ in 0..m {
                    let (a, b) = (r.below(k), r.below(k));
                    if a != b {
                        pairs.push((ord[a.min(b)], ord[a.max(b)]));
                    }
                }
            }
            3 => {
                // "undirected": every edge in both directions
                let m = r.below((2 * k).min(max_m / 2) + 1);
                for _ in 0..m {
                    let (a, b) = (pickn(r), pickn(r));
                    pairs.push((a, b));
                    if a != b {
                        pairs.push((b, a));
                    }
                }
            }
            4 => {
                // two parts, edges only inside each part
                let cut = k / 2;
                let m = r.below((2 * k).min(max_m) + 1);
                for _ in 0..m {
                    if cut > 0 && r.chance(0.5) {
                        pairs.push((live[r.below(cut)], live[r.below(cut)]));
                    } else {
                        pairs.push((live[cut + r.below(k - cut)], live[cut + r.below(k - cut)]));
                    }
                }
            }
            5 => {
                // cycle plus chords
                let mut ord = live.clone();
                r.shuffle(&mut ord);
                if k > 1 {
                    for i in 0..k {
                        pairs.push((ord[i], ord[(i + 1) % k]));
                    }
                }
                for _ in 0..r.below(6) {
                    pairs.push((pickn(r), pickn(r)));
                }
            }
            6 => {
                // path / tree with random orientation
                let mut ord = live.clone();
                r.shuffle(&mut ord);
                for i in 1..k {
                    let parent = if r.chance(0.5) { ord[i - 1] } else { ord[r.below(i)] };
                    if r.chance(0.5) {
                        pairs.push((parent, ord[i]));
                    } else {
                        pairs.push((ord[i], parent));
                    }
                }
                for _ in 0..r.below(3) {
                    pairs.push((pickn(r), pickn(r)));
                }
            }
            _ => {
                // complete-ish
                for &a in &live {
                    for &b in &live {
                        if a != b && r.chance(0.8) {
                            pairs.push((a, b));
                        }
                    }
                }
            }
        }
    }
    // self-loops: generated by chance above; filter or add according to p_loop
    let mut es: Vec<(usize, usize)> = Vec::new();
    for (a, b) in pairs {
        if a == b && !(p_loop > 0.0) {
            continue;
        }
        es.push((a, b));
        if !es.is_empty() && r.chance(p_par) {
            let (x, y) = es[r.below(es.len())];
            es.push(if r.chance(0.6) { (x, y) } else { (y, x) });
        }
        if !live.is_empty() && r.chance(p_loop * 0.3) {
            let x = live[r.below(live.len())];
            es.push((x, x));
        }
    }
    r.shuffle(&mut es);
    es.truncate(max_m);

    // weights
    let wmode = r.weighted(&[3, 1, 1, 6, 3, 1]);
    let use_w = wmode != 0;
    let same = *r.pick(NONNEG);
    let use_cap = r.chance(0.85);
    let half_caps = r.chance(0.15);
    let edges: Vec<Edge> = es
        .into_iter()
        .map(|(u, v)| {
            let w = match wmode {
                0 => {
                    if r.chance(0.3) {
                        let v = *r.pick(NONNEG);
                        num(r, v)
                    } else {
                        Num::Miss
                    }
                }
                1 => Num::Miss,
                2 => num(r, same),
                3 => {
                    if r.chance(0.15) {
                        Num::Miss
                    } else {
                        let v = *r.pick(NONNEG);
                        num(r, v)
                    }
                }
                4 => {
                    if r.chance(0.1) {
                        Num::Miss
                    } else if r.chance(0.25) {
                        let v = *r.pick(NEGS);
                        num(r, v)
                    } else {
                        let v = *r.pick(NONNEG);
                        num(r, v)
                    }
                }
                _ => {
                    let v = *r.pick(NEGS);
                    num(r, v)
                }
            };
            let cap = if r.chance(0.2) {
                Num::Miss
            } else {
                let v = *r.pick(&[0.0, 1.0, 1.0, 2.0, 2.0, 3.0]) + if half_caps && r.chance(0.3) { 0.5 } else { 0.0 };
                num(r, v)
            };
            let cost = if r.chance(0.25) {
                Num::Miss
            } else {
                let v = *r.pick(&[0.0, 1.0, 1.0, 2.0, 3.0]);
                num(r, v)
            };
            Edge { u, v, w, cap, cost }
        })
        .collect();
    let mut gaps = vec![false; n];
    if r.chance(0.15) {
        for g in gaps.iter_mut() {
            *g = r.chance(0.4);
        }
    }
    G { n, edges, gaps, use_w, use_cap }
}

/// k-th simple digraph (optionally with self-loops) on n labelled nodes: bit (u*n+v) of `code`
pub fn exhaustive_graph(n: usize, code: u64, pattern_weights: bool) -> G {
    let mut edges = Vec::new();
    for u in 0..n {
        for v in 0..n {
            if code >> (u * n + v) & 1 == 1 {
                let w = if pattern_weights { Num::I(((2 * u + 3 * v + 1) % 4) as i64) } else { Num::Miss };
                let cap = if pattern_weights { Num::I(((u + 2 * v) % 3) as i64 + 1) } else { Num::Miss };
                let cost = if pattern_weights { Num::I(((3 * u + v) % 3) as i64) } else { Num::Miss };
                edges.push(Edge { u, v, w, cap, cost });
            }
        }
    }
    G { n, edges, gaps: vec![false; n], use_w: pattern_weights, use_cap: pattern_weights }
}

/// Hand-written minimal witnesses of the recorded findings (and a few neighbours): judged on
/// every invocation, before the enumeration and the random graphs, so that every open finding
/// is either observed or reported as no longer reproducing.
pub fn directed_witnesses() -> Vec<G> {
    const M: Num = Num::Miss;
    let lit = |n: usize, es: &[(usize, usize, Num, Num)], use_w: bool, use_cap: bool| G {
        n,
        edges: es.iter().map(|&(u, v, w, cost)| Edge { u, v, w, cap: M, cost }).collect(),
        gaps: vec![false; n],
        use_w,
        use_cap,
    };
    vec![
        // dfs_all: second root re-traverses what the first finished; post-order vs documented order
        lit(2, &[(1, 0, M, M)], false, false),
        lit(2, &[(0, 1, M, M)], false, false),
        lit(3, &[(0, 1, M, M), (2, 1, M, M)], false, false),
        // kruskal: first edge seen per node pair wins
        lit(2, &[(0, 1, Num::I(2), M), (0, 1, M, M)], true, false),
        lit(2, &[(0, 1, Num::I(2), M), (1, 0, M, M)], true, false),
        lit(2, &[(0, 1, M, M), (0, 1, Num::I(2), M)], true, false),
        // prim: incoming edges are never usable
        lit(2, &[(0, 1, M, M), (1, 0, Num::I(2), M)], true, false),
        lit(3, &[(0, 1, Num::I(2), M), (1, 2, M, M), (2, 0, M, M)], true, false),
        // k-core
        lit(2, &[(0, 0, M, M), (0, 1, M, M), (1, 1, M, M)], false, false),
        lit(3, &[(0, 1, M, M), (1, 2, M, M), (2, 0, M, M)], false, false),
        // min-cost flow: parallel edges share the last cost; antiparallel edge used as reverse arc
        lit(2, &[(0, 1, M, M), (0, 1, M, Num::I(1))], false, true),
        lit(2, &[(0, 1, M, Num::I(1)), (0, 1, M, M)], false, true),
        lit(4, &[(0, 1, M, M), (0, 2, M, Num::I(1)), (1, 0, M, Num::I(1)), (1, 2, M, M), (3, 0, M, M), (3, 1, M, Num::I(1))], false, true),
        // clustering: a self-loop makes a node its own neighbour
        lit(2, &[(0, 0, M, M), (0, 1, M, M)], false, false),
        lit(3, &[(0, 0, M, M), (0, 1, M, M), (0, 2, M, M), (1, 1, M, M)], false, false),
    ]
}

// ------------------------------------------------------------------------------------------
// store builder
// ------------------------------------------------------------------------------------------

pub struct Built {
    pub store: LpgStore,
    pub ids: Vec<NodeId>,
    #[allow(dead_code)]
    pub eids: Vec<EdgeId>,
    pub idx: HashMap<NodeId, usize>,
    pub eidx: HashMap<EdgeId, usize>,
    pub dead: Vec<NodeId>,
}

pub fn build(g: &G) -> Built {
    let store = LpgStore::new();
    let mut ids = Vec::with_capacity(g.n);
    let mut dead = Vec::new();
    for i in 0..g.n {
        if g.gaps[i] {
            let d = store.create_node(&["X"]);
            store.delete_node(d);
            dead.push(d);
        }
        ids.push(store.create_node(&["N"]));
    }
    let mut eids = Vec::with_capacity(g.edges.len());
    for e in &g.edges {
        let id = store.create_edge(ids[e.u], ids[e.v], "E");
        if let Some(v) = e.w.value() {
            store.set_edge_property(id, W, v);
        }
        if let Some(v) = e.cap.value() {
            store.set_edge_property(id, CAP, v);
        }
        if let Some(v) = e.cost.value() {
            store.set_edge_property(id, COST, v);
        }
        eids.push(id);
    }
    let idx = ids.iter().enumerate().map(|(i, n)| (*n, i)).collect();
    let eidx = eids.iter().enumerate().map(|(i, n)| (*n, i)).collect();
    Built { store, ids, eids, idx, eidx, dead }
}

/// Does the store present exactly the model graph through the view the algorithms use?
pub fn view_matches(g: &G, b: &Built) -> bool {
    use grafeo_core::graph::Direction;
    if b.store.node_ids() != b.ids {
        return false;
    }
    for u in 0..g.n {
        let mut got: Vec<(usize, usize)> =
            b.store.edges_from(b.ids[u], Direction::Outgoing).filter_map(|(v, e)| Some((*b.idx.get(&v)?, *b.eidx.get(&e)?))).collect();
        got.sort_unstable();
        let mut exp: Vec<(usize, usize)> = g.edges.iter().enumerate().filter(|(_, e)| e.u == u).map(|(k, e)| (e.v, k)).collect();
        exp.sort_unstable();
        if got != exp {
            return false;
        }
        let mut got: Vec<(usize, usize)> =
            b.store.edges_from(b.ids[u], Direction::Incoming).filter_map(|(v, e)| Some((*b.idx.get(&v)?, *b.eidx.get(&e)?))).collect();
        got.sort_unstable();
        let mut exp: Vec<(usize, usize)> = g.edges.iter().enumerate().filter(|(_, e)| e.v == u).map(|(k, e)| (e.u, k)).collect();
        exp.sort_unstable();
        if got != exp {
            return false;
        }
    }
    true
}

// ------------------------------------------------------------------------------------------
// deviation collector + watchdog slot
// ------------------------------------------------------------------------------------------

pub struct Dev {
    pub algo: &'static str,
    pub clause: String,
    pub detail: J,
}

/// What a worker is doing right now (read by the watchdog). The watchdog judges by the CPU
/// time the worker thread burns inside one engine call, never by wall clock, so a loaded
/// machine cannot trip it.
pub struct Slot {
    pub state: Mutex<(u64, &'static str, u64, bool)>, // case, algo, call sequence number, finished
    pub cpu_clock: Mutex<Option<libc::clockid_t>>,
}

impl Slot {
    pub fn new() -> Self {
        Slot { state: Mutex::new((0, "", 0, false)), cpu_clock: Mutex::new(None) }
    }
    /// to be called by the worker thread itself
    pub fn register_current_thread(&self) {
        let mut cid: libc::clockid_t = 0;
        // SAFETY: plain libc call on the calling thread's own handle
        let rc = unsafe { libc::pthread_getcpuclockid(libc::pthread_self(), &mut cid) };
        if rc == 0 {
            *self.cpu_clock.lock().unwrap() = Some(cid);
        }
    }
    /// CPU seconds consumed so far by the registered thread
    pub fn cpu_seconds(&self) -> Option<f64> {
        let cid = (*self.cpu_clock.lock().unwrap())?;
        let mut ts = libc::timespec { tv_sec: 0, tv_nsec: 0 };
        // SAFETY: cid came from pthread_getcpuclockid of a thread that is never joined/detached-freed while polled
        let rc = unsafe { libc::clock_gettime(cid, &mut ts) };
        if rc == 0 { Some(ts.tv_sec as f64 + ts.tv_nsec as f64 * 1e-9) } else { None }
    }
}

pub struct Out<'a> {
    pub devs: Vec<Dev>,
    pub calls: BTreeMap<&'static str, u64>,
    pub notes: BTreeMap<&'static str, u64>,
    pub slot: Option<&'a Slot>,
    pub case: u64,
}

impl<'a> Out<'a> {
    pub fn new(slot: Option<&'a Slot>, case: u64) -> Self {
        Out { devs: Vec::new(), calls: BTreeMap::new(), notes: BTreeMap::new(), slot, case }
    }
    pub fn call(&mut self, algo: &'static str) {
        *self.calls.entry(algo).or_insert(0) += 1;
        if let Some(s) = self.slot {
            let mut st = s.state.lock().unwrap();
            *st = (self.case, algo, st.2 + 1, false);
        }
    }
    pub fn note(&mut self, what: &'static str) {
        *self.notes.entry(what).or_insert(0) += 1;
    }
    /// first failure per (algo, clause) and graph is kept
    pub fn fail(&mut self, algo: &'static str, clause: &str, detail: J) {
        if self.devs.iter().any(|d| d.algo == algo && d.clause == clause) {
            return;
        }
        self.devs.push(Dev { algo, clause: clause.to_string(), detail });
    }
}

/// run an engine call under panic capture; None (and a recorded deviation) when it panicked
#[macro_export]
macro_rules! c19_eng {
    ($out:expr, $algo:expr, $e:expr) => {{
        $out.call($algo);
        match $crate::util::catch(|| $e) {
            Ok(v) => Some(v),
            Err(p) => {
                $out.fail($algo, &format!("panic@{}", p.site), serde_json::json!({"at": p.at, "msg": p.msg}));
                None
            }
        }
    }};
}
