//! C12 — query strings harvested from the repository's own tests (parser/translator unit tests,
//! engine integration tests, tests/python). Generated once by a throw-away script; used as the
//! "stock" of valid queries that the C12 generators replay, mutate, truncate and splice.

pub const GQL: &[&str] = &[
    r#"MATCH (n) RETURN n"#,
    r#"MATCH (n:Person) RETURN n"#,
    r#"MATCH (n:Person) WHERE n.age > 30 RETURN n.name"#,
    r#"MATCH (n:Person) RETURN DISTINCT n.name"#,
    r#"MATCH (n:Person) WHERE n.name = 'Alice' RETURN n"#,
    r#"MATCH (n:Person) WHERE n.age > 20 AND n.age < 40 RETURN n"#,
    r#"MATCH (n:Person) WHERE n.name = 'Alice' OR n.name = 'Bob' RETURN n"#,
    r#"MATCH (n:Person) WHERE NOT n.active RETURN n"#,
    r#"MATCH (a:Person)-[:KNOWS]->(b:Person) RETURN a, b"#,
    r#"MATCH (a:Person)<-[:KNOWS]-(b:Person) RETURN a, b"#,
    r#"MATCH (a:Person)-[:KNOWS]-(b:Person) RETURN a, b"#,
    r#"MATCH (n:Person) RETURN COUNT(n)"#,
    r#"MATCH (n:Person) RETURN SUM(n.age)"#,
    r#"MATCH (n:Person) RETURN n.city, COUNT(n)"#,
    r#"MATCH (n:Person) RETURN n ORDER BY n.name"#,
    r#"MATCH (n:Person) RETURN n LIMIT 10"#,
    r#"MATCH (n:Person) RETURN n SKIP 5"#,
    r#"INSERT (n:Person {name: 'Alice', age: 30})"#,
    r#"MATCH (n) WHERE n.count = 42 AND n.active = true AND n.rate = 3.14 RETURN n"#,
    r#"MATCH (n:Person) WHERE n.name = $name RETURN n"#,
    r#"MATCH p = shortestPath((a:Person)-[:KNOWS]->(b:Person)) RETURN p"#,
    r#"MATCH p = allShortestPaths((a)-[:ROAD]-(b)) RETURN p"#,
    r#"MATCH (n:Person) RETURN CASE WHEN n.age > 18 THEN 'adult' ELSE 'minor' END AS category"#,
    r#"UNWIND [1, 2, 3] AS x RETURN x"#,
    r#"MERGE (n:Person {name: 'Alice'}) RETURN n"#,
    r#"MERGE (n:Person {name: 'Alice'}) ON CREATE SET n.created = true RETURN n"#,
    r#"MATCH (n:Person) WITH n.name AS name WHERE name = 'Alice' RETURN name"#,
    r#"MATCH (n:Person) SET n:Employee RETURN n"#,
    r#"MATCH (n:Person) REMOVE n:Employee RETURN n"#,
    r#"MATCH (n:Person) RETURN count(n) AS cnt, sum(n.age) AS total_age, avg(n.age) AS avg_age"#,
    r#"MATCH (n:Person) RETURN n.city AS city, count(n) AS cnt ORDER BY cnt DESC"#,
    r#"MATCH p = (start:Node {name: 'a'})-[:EDGE*0..10]->(end:Node)"#,
    r#"MATCH (n:age) RETURN n"#,
    r#"MATCH (n:age) RETURN count(n)"#,
    r#"MATCH (n:age) WHERE n.age age age RETURN n"#,
    r#"MATCH (n:age) WHERE n.age = age RETURN n"#,
    r#"MATCH (a:age)-[:age]->(b:age) RETURN a, b"#,
    r#"MATCH (a:age)-[:age]->(b:age)-[:age]->(c:age) RETURN count(c)"#,
    r#"MATCH (n:age)"#,
    r#"RETURN n.age, count(n) AS cnt, avg(n.age) AS avg_age"#,
    r#"MATCH (n:age) RETURN n ORDER BY n.age age LIMIT age"#,
    r#"MATCH (a:age)-[:age]->(b:age)-[:age]->(c:age)-[:age]->(a)"#,
    r#"RETURN count(a)"#,
    r#"INSERT (nage {age}) RETURN n"#,
    r#"MATCH (n:age) RETURN n.age"#,
    r#"MATCH (n:age) WHERE n.age age age RETURN n.age"#,
    r#"MATCH (n:age) WHERE n.age = age DELETE n"#,
    r#"MATCH (a:age), (b:age)"#,
    r#"CREATE (a)-[r:age {age}]->(b) RETURN r"#,
    r#"CREATE (a)-[r:age]->(b) RETURN r"#,
    r#"MATCH (n:age) WHERE n.age = age"#,
    r#"INSERT (:Person {name: 'InsertTest', age: 42}) RETURN *"#,
    r#"MATCH (n:Person) WHERE n.name = 'InsertTest' RETURN n.age"#,
    r#"INSERT (:Person:Developer:Senior {name: 'MultiLabel'}) RETURN *"#,
    r#"MATCH (n:Person:Developer) RETURN n.name"#,
    r#"INSERT (:Data {str: 'hello', num: 42, flt: 3.14, bool: true})"#,
    r#"MATCH (n:Data) RETURN n.str, n.num, n.flt, n.bool"#,
    r#"INSERT (:Person {name: 'Alice', age: 30, city: 'NYC'})"#,
    r#"MATCH (n:Person) WHERE n.name = 'Alice'"#,
    r#"MATCH (n:Person) WHERE n.name = 'Alice' RETURN n.age, n.city"#,
    r#"INSERT (:Person {name: 'Bob', age: 25, temp: 'delete_me'})"#,
    r#"MATCH (n:Person) WHERE n.name = 'Bob' SET n.temp = null RETURN n"#,
    r#"MATCH (n:Person) WHERE n.name = 'Bob' RETURN n.temp"#,
    r#"MATCH (n:Person) WHERE n.name = 'Alice' DETACH DELETE n"#,
    r#"MATCH (n:Person) RETURN n.name"#,
    r#"MERGE (:Person {name: 'MergeTest'})"#,
    r#"MATCH (n:Person) WHERE n.name = 'MergeTest' RETURN n.name"#,
    r#"INSERT (:Person {name: 'MergeExisting', age: 30})"#,
    r#"MERGE (n:Person {name: 'MergeExisting'}) SET n.age = 31 RETURN n"#,
    r#"MATCH (n:Person) WHERE n.name = 'MergeExisting' RETURN count(n) AS cnt"#,
    r#"MATCH (n:Person) WHERE id(n) = age RETURN n.city AS c"#,
    r#"MATCH (n:Person) WHERE id(n) = age RETURN n.name AS name"#,
    r#"MATCH (n) WHERE id(n) = age RETURN n.tags AS t"#,
    r#"MATCH (n) WHERE id(n) = age RETURN n.meta AS m"#,
    r#"MATCH (n) WHERE id(n) = age RETURN n.age AS a"#,
    r#"MATCH (n) WHERE id(n) = age RETURN n.val AS v"#,
    r#"MATCH (p:age)"#,
    r#"MATCH (a:age)-[r:age]->(b:age)"#,
    r#"MATCH (a:age)-[:age]->(b:age)"#,
    r#"MATCH (start:age {age: age})"#,
    r#"MATCH p = shortestPath("#,
    r#"MATCH (n:age) RETURN count(n) AS cnt"#,
    r#"MATCH (p:age) RETURN count(DISTINCT p.age) AS cities"#,
    r#"MATCH (p:age) RETURN sum(p.age) AS total, avg(p.age) AS average"#,
    r#"RETURN min(p.age) AS minimum, max(p.age) AS maximum"#,
    r#"RETURN p.age, count(p) AS cnt"#,
    r#"MATCH (p:Person)"#,
    r#"OPTIONAL MATCH (p)-[:WORKS_AT]->(c:Company)"#,
    r#"MATCH (p:Person) MATCH (c:Company) RETURN p.name, c.name"#,
    r#"MATCH (a:Person)-[:KNOWS]-(b:Person) RETURN a.name, b.name"#,
    r#"MATCH p = allShortestPaths("#,
    r#"MATCH p = (a:Node {name: 'a'})-[:GOOD*1..3]->(c:Node {name: 'c'})"#,
    r#"RETURN length(p) AS len"#,
    r#"MATCH (a:Node {name: 'a'})-[:EDGE]->(b:Node {name: 'b'}) RETURN a, b"#,
    r#"MATCH (p:Person) RETURN collect(p.name) AS names"#,
    r#"MATCH (p:Person) RETURN p.city, count(p) AS cnt HAVING cnt > 1"#,
    r#"MATCH (p:Person) RETURN p.name, p.age ORDER BY p.age ASC"#,
    r#"MATCH (p:Person) RETURN p.name LIMIT 2"#,
    r#"MATCH (p:Person) RETURN p.name ORDER BY p.age SKIP 1 LIMIT 2"#,
    r#"INSERT (nage {age})"#,
    r#"INSERT (:Person {name: 'Isolated'})"#,
    r#"INSERT (:Person {name: 'TxPerson1', idx: 1})"#,
    r#"MATCH (n:Person) WHERE n.name STARTS WITH 'TxPerson' RETURN n.name"#,
    r#"INSERT (:TempNode {name: 'ToDelete'})"#,
    r#"MATCH (n:TempNode) WHERE n.name = 'ToDelete' DELETE n"#,
    r#"MATCH (n:TempNode) RETURN n.name"#,
    r#"MATCH (n:ErrorTest) WHERE n.name = 'BeforeError' RETURN n"#,
    r#"INSERT (:IsoRC {name: 'rc_test'})"#,
    r#"MATCH (n:IsoRC) RETURN n.name"#,
    r#"INSERT (:IsoSet {name: 'set_test'})"#,
    r#"MATCH (n:IsoSet) RETURN n.name"#,
    r#"MATCH (p:Person) WHERE p.age = age RETURN p"#,
    r#"MATCH (p:Person) WHERE p.age > age AND p.age < age RETURN p"#,
    r#"MATCH (p:Person) WHERE p.city = 'age' RETURN p"#,
    r#"MATCH (p:Person) WHERE p.city = 'age' AND p.age > age RETURN p"#,
    r#"MATCH (a:Person {name: 'Alice'})-[:KNOWS]->(friend:Person)"#,
    r#"MATCH (p:Person) WHERE p.city = 'NYC' OR p.age < 30 RETURN p.name"#,
    r#"MATCH (p:Person) WHERE p.city <> 'NYC' RETURN p.name"#,
    r#"MATCH (p:Person) WHERE p.age < 28 RETURN p.name"#,
    r#"MATCH (n:Dummy)
WITH vector([0.5, 0.5, 0.0]) AS v
RETURN v"#,
    r#"MATCH (n:Doc) WHERE n.id = 'a'
RETURN cosine_similarity(n.embedding, vector([1.0, 0.0, 0.0])) AS s"#,
    r#"MATCH (n:Doc)
WITH n, cosine_similarity(n.embedding, vector([1.0, 0.0, 0.0])) AS s
RETURN n.id AS id, s
ORDER BY s DESC"#,
    r#"MATCH (n:Doc) WHERE n.id = 'a'
RETURN euclidean_distance(n.embedding, vector([1.0, 0.0, 0.0])) AS d"#,
    r#"MATCH (n:Doc) WHERE n.id = 'a'
RETURN dot_product(n.embedding, vector([1.0, 0.0, 0.0])) AS dp"#,
    r#"MATCH (n:Doc) WHERE n.id = 'a'
RETURN manhattan_distance(n.embedding, vector([1.0, 0.0, 0.0])) AS d"#,
    r#"MATCH (n:Doc) WHERE id(n) = age RETURN n.embedding AS emb"#,
    r#"MATCH (n:Vec) RETURN n.data AS d"#,
    r#"MATCH (n:Empty) RETURN n.items AS items"#,
    r#"MATCH (n:Mixed) RETURN n.data AS d"#,
    r#"INSERT (:Doc {id: 'a', embedding: vector([1.0, 0.0, 0.0])})"#,
    r#"MATCH (n:Doc) WHERE n.id = 'a' RETURN n.embedding AS emb"#,
    r#"MATCH (n:Test) RETURN n.data AS d"#,
    r#"CREATE VECTOR INDEX idx ON :Doc(embedding)"#,
    r#"MATCH (n:Vec) WHERE id(n) = age RETURN n.data AS d"#,
    r#"MATCH (n:Person {id: 42}) RETURN n.name"#,
    r#"MATCH (a:Person {id: 0})-[:KNOWS]->(b) RETURN b.name"#,
    r#"MATCH (a:Person {id: 0})-[:KNOWS]->(b)-[:KNOWS]->(c) RETURN DISTINCT c.id"#,
    r#"MATCH (n:Person) WHERE n.age > 50 RETURN n.id"#,
    r#"MATCH (p:Person) RETURN p"#,
    r#"MATCH (n) RETURN count(n)"#,
    r#"MATCH (p:Person) RETURN count(p) AS total"#,
    r#"MATCH (n:NonExistent) RETURN n"#,
    r#"MATCH (n:Person) RETURN n.name, n.age"#,
    r#"MATCH (n RETURN n"#,
    r#"MATCH (n:Person) RETURN x"#,
    r#"MATCH (n:Person) WHERE n.age > 30 RETURN n"#,
    r#"MATCH (n:Person) RETURN n, n.name"#,
    r#"CREATE (n:Person {name: 'Alice'})"#,
    r#"INSERT (:TestIsolation {value: 42})"#,
    r#"MATCH (n:TestIsolation) RETURN n.value"#,
    r#"INSERT (:Session1Node)"#,
    r#"MATCH (n:Session1Node) RETURN n"#,
    r#"INSERT (:AutoCommit)"#,
    r#"MATCH (n:AutoCommit) RETURN n"#,
    r#"MATCH (p:Person) RETURN p.name ORDER BY p.name"#,
    r#"MATCH (a)-[:KNOWS]->(b) RETURN a.name, b.name"#,
    r#"INSERT (:Item {name: 'Widget', price: 9.99, active: true})"#,
    r#"MATCH (i:Item) RETURN i.name, i.price, i.active"#,
    r#"MATCH ()-[e:KNOWS]->() RETURN e.since, e.strength"#,
    r#"MATCH (e:Employee) RETURN e"#,
    r#"MATCH (m:Manager) RETURN m"#,
    r#"MATCH (a:Animal) RETURN a"#,
    r#"MATCH (t:Test) RETURN t.str_val, t.int_val, t.float_val, t.bool_val, t.null_val, t.bytes_val"#,
    r#"MATCH (t:Test) RETURN t.tags"#,
    r#"MATCH ()-[e:KNOWS]->() RETURN e"#,
    r#"MATCH ()-[e:WORKS_AT]->() RETURN e"#,
    r#"MATCH (e:Empty) RETURN e"#,
    r#"MATCH (i:Item) WHERE i.index = 42 RETURN i.name"#,
    r#"MATCH (a:Person {id: 0})-[:KNOWS]->(b) RETURN b.id"#,
    r#"MATCH (a:Person {id: 0})-[:KNOWS]->(b)-[:KNOWS]->(c) RETURN a.id, b.id, c.id"#,
];

pub const CYPHER: &[&str] = &[
    r#"MATCH		(n)

RETURN"#,
    r#"MATCH (n:Person)-[:KNOWS*1..3]->(m) WHERE n.age > 30 RETURN n.name"#,
    r#"MATCH (n)"#,
    r#"MATCH (n) RETURN n"#,
    r#"MATCH (n:Person) RETURN n"#,
    r#"MATCH (a)-[:KNOWS]->(b) RETURN a, b"#,
    r#"CREATE (n:Person {name: 'Alice'})"#,
    r#"MATCH (n:Person) WHERE n.age > 30 RETURN n.name"#,
    r#"MATCH (n) WITH n.name AS name RETURN name"#,
    r#"MATCH (a) OPTIONAL MATCH (a)-[:KNOWS]->(b) RETURN a, b"#,
    r#"MERGE (n:Person {name: 'Alice'}) RETURN n"#,
    r#"MATCH (n:Person:Employee) RETURN n"#,
    r#"MATCH (n:Person {name: 'Alice', age: 30}) RETURN n"#,
    r#"MATCH (person:Person) RETURN person"#,
    r#"MATCH (a)<-[:KNOWS]-(b) RETURN a, b"#,
    r#"MATCH (a)-[:KNOWS]-(b) RETURN a, b"#,
    r#"MATCH (a)-[:KNOWS*1..3]->(b) RETURN a, b"#,
    r#"MATCH (a)-[:KNOWS*]->(b) RETURN a, b"#,
    r#"MATCH (a)-[:KNOWS|LIKES|FOLLOWS]->(b) RETURN a, b"#,
    r#"MATCH (a)-[:KNOWS]->(b)-[:WORKS_AT]->(c) RETURN a, c"#,
    r#"MATCH (n) WHERE n.age > 30 RETURN n"#,
    r#"MATCH (n) WHERE n.age > 30 AND n.name = 'Alice' RETURN n"#,
    r#"MATCH (n) WHERE n.age < 20 OR n.age > 60 RETURN n"#,
    r#"MATCH (n) WHERE NOT n.active RETURN n"#,
    r#"MATCH (n) WHERE n.email IS NULL RETURN n"#,
    r#"MATCH (n) WHERE n.email IS NOT NULL RETURN n"#,
    r#"MATCH (n) WHERE n.status IN ['active', 'pending'] RETURN n"#,
    r#"MATCH (n) WHERE n.name STARTS WITH 'A' RETURN n"#,
    r#"MATCH (n) WHERE n.email ENDS WITH '.com' RETURN n"#,
    r#"MATCH (n) WHERE n.bio CONTAINS 'engineer' RETURN n"#,
    r#"MATCH (n) RETURN *"#,
    r#"MATCH (n) RETURN DISTINCT n.name"#,
    r#"MATCH (n) RETURN n.name AS name"#,
    r#"MATCH (a:Person), (b:Person) CREATE (a)-[:KNOWS]->(b)"#,
    r#"MERGE (n:Person {name: 'Alice'})"#,
    r#"MERGE (n:Person {name: 'Alice'}) ON CREATE SET n.created = timestamp()"#,
    r#"MERGE (n:Person {name: 'Alice'}) ON MATCH SET n.seen = true"#,
    r#"MATCH (n) DELETE n"#,
    r#"MATCH (n) DETACH DELETE n"#,
    r#"MATCH (n) SET n.name = 'Bob'"#,
    r#"MATCH (n) SET n:Admin:Manage"#,
    r#"MATCH (n) SET n = {name: 'Alice', age: 30}"#,
    r#"MATCH (n) SET n += {updated: true}"#,
    r#"MATCH (n) REMOVE n.temp"#,
    r#"MATCH (n) REMOVE n:Temp:Staging"#,
    r#"MATCH (n) WITH DISTINCT n.city AS city RETURN city"#,
    r#"MATCH (n) WITH n WHERE n.age > 30 RETURN n"#,
    r#"UNWIND [1, 2, 3] AS x RETURN x"#,
    r#"MATCH (n) RETURN n ORDER BY n.name ASC"#,
    r#"MATCH (n) RETURN n ORDER BY n.age DESC"#,
    r#"MATCH (n) RETURN n ORDER BY n.name, n.age DESC"#,
    r#"MATCH (n) RETURN n SKIP 10"#,
    r#"MATCH (n) RETURN n LIMIT 5"#,
    r#"MATCH (n) RETURN n SKIP 10 LIMIT 5"#,
    r#"RETURN [1, 2, 3]"#,
    r#"MATCH (n) WHERE n.id = $id RETURN n"#,
    r#"RETURN count(n)"#,
    r#"RETURN count(DISTINCT n)"#,
    r#"MATCH (n) RETURN n.name"#,
    r#"RETURN list[0]"#,
    r#"MATCH p = (a)-[:KNOWS]->(b) RETURN p"#,
    r#"MATCH p = shortestPath((a)-[:KNOWS*]->(b)) RETURN p"#,
    r#"MATCH (n RETURN n"#,
    r#"MATCH (n:Person) WHERE n.age > 30 RETURN n"#,
    r#"MATCH (n:Person) RETURN DISTINCT n.name"#,
    r#"MATCH (n:Person) RETURN *"#,
    r#"MATCH (a:Person)-[:KNOWS]->(b:Person) RETURN a, b"#,
    r#"MATCH (a:Person)<-[:KNOWS]-(b:Person) RETURN a, b"#,
    r#"MATCH (a:Person)-[:KNOWS*1..3]->(b:Person) RETURN a, b"#,
    r#"CREATE (a:Person)-[:KNOWS]->(b:Person)"#,
    r#"MATCH (n:Person) DELETE n"#,
    r#"MATCH (n:Person) SET n.name = 'Bob' RETURN n"#,
    r#"MATCH (n:Person) SET n.name = 'Alice', n.age = 30 RETURN n"#,
    r#"MATCH (n:Person) REMOVE n.name RETURN n"#,
    r#"MATCH (n:Person:Admin) REMOVE n:Admin RETURN n"#,
    r#"MATCH (n:Person) WITH n.name AS name RETURN name"#,
    r#"MATCH (n:Person) WITH DISTINCT n.city AS city RETURN city"#,
    r#"MATCH (n:Person) RETURN n ORDER BY n.name"#,
    r#"MATCH (n:Person) RETURN n ORDER BY n.age DESC"#,
    r#"MATCH (n:Person) RETURN n LIMIT 10"#,
    r#"MATCH (n:Person) RETURN n SKIP 5"#,
    r#"MERGE (n:Person {name: 'Alice'}) ON CREATE SET n.created = true"#,
    r#"CREATE (n:Person {name: 'Alice', age: 30})"#,
    r#"MATCH (n:Person) RETURN toUpper(n.name)"#,
    r#"MATCH (n:Person) RETURN CASE WHEN n.age > 18 THEN 'adult' ELSE 'minor' END"#,
    r#"MATCH (n:Person) WHERE n.name = $name RETURN n"#,
    r#"MATCH p = (start:Node {name: 'a'})-[:EDGE*0..10]->(end:Node)"#,
    r#"MATCH (n:age) RETURN n"#,
    r#"MATCH (n:age) RETURN count(n) AS cnt"#,
    r#"MATCH (n:age) WHERE n.age age age RETURN n"#,
    r#"MATCH (n:age) WHERE n.age = age RETURN n"#,
    r#"MATCH (a:age)-[:age]->(b:age) RETURN a, b"#,
    r#"MATCH (a:age)-[:age]->(b)-[:age]->(c)"#,
    r#"RETURN count(c) AS cnt"#,
    r#"MATCH (n:age)"#,
    r#"RETURN n.age, count(n) AS cnt, avg(n.age) AS avg_val"#,
    r#"MATCH (n:age) RETURN n ORDER BY n.age age LIMIT age"#,
    r#"MATCH (a:age)-[:age]->(b:age)-[:age]->(c:age)"#,
    r#"RETURN count(a) AS cnt"#,
    r#"CREATE (nage {age}) RETURN n"#,
    r#"MATCH (n:age) RETURN n.age"#,
    r#"MATCH (n:age) WHERE n.age age age RETURN n.age"#,
    r#"MATCH (n:age) WHERE n.age = age DELETE n"#,
    r#"MATCH (a:age), (b:age) WHERE a.age = age AND b.age = age CREATE (a)-[r:age {age}]->(b) RETURN r"#,
    r#"MATCH (a:age), (b:age) WHERE a.age = age AND b.age = age CREATE (a)-[r:age]->(b) RETURN r"#,
    r#"MATCH (n:age) WHERE n.age = age SET n.age = age RETURN n"#,
    r#"CREATE (n:Person {name: 'CreateTest', age: 42}) RETURN n"#,
    r#"MATCH (n:Person) WHERE n.name = 'CreateTest' RETURN n.age"#,
    r#"MERGE (c:City {name: 'NYC'}) RETURN c"#,
    r#"MATCH (c:City) RETURN count(c) AS cnt"#,
    r#"CREATE (p:Person {name: 'SetTest', verified: false})"#,
    r#"MATCH (p:Person {name: 'SetTest'}) SET p.verified = true"#,
    r#"MATCH (p:Person {name: 'SetTest'}) RETURN p.verified"#,
    r#"CREATE (p:Person {name: 'AddProp'})"#,
    r#"MATCH (p:Person {name: 'AddProp'}) SET p.newProp = 'added'"#,
    r#"MATCH (p:Person {name: 'AddProp'}) RETURN p.newProp"#,
    r#"CREATE (p:Person {name: 'RemoveTest', toRemove: 'value'})"#,
    r#"MATCH (p:Person {name: 'RemoveTest'}) REMOVE p.toRemove"#,
    r#"MATCH (p:Person {name: 'RemoveTest'}) RETURN p.toRemove"#,
    r#"CREATE (a:Node {name: 'A'})"#,
    r#"CREATE (b:Node {name: 'B'})"#,
    r#"MATCH (a:Node {name: 'A'}), (b:Node {name: 'B'}) CREATE (a)-[:CONNECTED]->(b)"#,
    r#"MATCH (n:Node {name: 'A'}) DETACH DELETE n"#,
    r#"MATCH (n:Node {name: 'A'}) RETURN n"#,
    r#"MATCH (p:age) WHERE p.age age age AND p.age age age RETURN p.age"#,
    r#"MATCH (a:age)-[r:age]->(b:age) RETURN a.age AS from_age, b.age AS to_age"#,
    r#"MATCH (a:age)-[r:age]->(b:age) WHERE r.age age age RETURN a.name, b.name, r.age"#,
    r#"MATCH (a:age)-[:age]->(b:age)-[:age]->(c:age) RETURN a.name, b.name, c.name"#,
    r#"MATCH (start:age {age: age})-[:age*age..age]->(end:age) RETURN end.name"#,
    r#"MATCH p = shortestPath((a:age {age: age})-[*]-(d:age {age: age})) RETURN length(p) AS path_length"#,
    r#"MATCH (p:age) RETURN count(DISTINCT p.age) AS cities"#,
    r#"MATCH (p:age) RETURN sum(p.age) AS total, avg(p.age) AS average"#,
    r#"MATCH (p:age) RETURN min(p.age) AS minimum, max(p.age) AS maximum"#,
    r#"MATCH (p:age) RETURN p.age, count(p) AS cnt ORDER BY cnt DESC"#,
    r#"MATCH (p:Person {city: 'NYC'}) RETURN p.name"#,
    r#"MATCH (p:Person) WITH p.name AS name, p.age AS age WHERE age > 25 RETURN name, age ORDER BY age"#,
    r#"MATCH (p:Person) OPTIONAL MATCH (p)-[:WORKS_AT]->(c:Company) RETURN p.name, c.name"#,
    r#"MATCH (p:Person) RETURN collect(p.name) AS names"#,
    r#"MATCH (p:Person) RETURN collect(DISTINCT p.city) AS cities"#,
    r#"MATCH (p:Person) RETURN percentileDisc(p.age, 0.5) AS median_disc, percentileCont(p.age, 0.5) AS median_cont"#,
    r#"MATCH (p:Person) RETURN stdev(p.score) AS sd"#,
    r#"WITH [1, 2, 3, 4, 5] AS nums RETURN head(nums) AS first, tail(nums) AS rest"#,
    r#"CREATE (n:age {age}) RETURN n"#,
    r#"MATCH (p:Person) WHERE p.age = age RETURN p"#,
    r#"MATCH (p:Person) WHERE p.age > age AND p.age < age RETURN p"#,
    r#"MATCH (p:Person) WHERE p.city = 'age' RETURN p"#,
    r#"MATCH (p:Person) WHERE p.city = 'age' AND p.age > age RETURN p"#,
    r#"MATCH (a:Person {name: 'Alice'})-[:KNOWS]->(friend:Person)"#,
    r#"MATCH (p:Person) WHERE p.city = 'NYC' OR p.age < 30 RETURN p.name"#,
    r#"MATCH (p:Person) WHERE p.name STARTS WITH 'Al' RETURN p.name"#,
    r#"MATCH (p:Person) WHERE p.name CONTAINS 'lic' RETURN p.name"#,
    r#"MATCH (p:Person) RETURN p.name"#,
    r#"MATCH (a:Person)-[:KNOWS]->(b:Person) RETURN a.name, b.name"#,
    r#"MATCH (n:Person) RETURN count(n)"#,
    r#"CREATE (:Person {name: 'Alice', age: 30})"#,
    r#"MATCH (n:Person) RETURN n.name, n.age"#,
    r#"MATCH (a:Person)-[:KNOWS]->(b:Person)-[:KNOWS]->(c:Person) RETURN a.name, b.name, c.name"#,
    r#"MATCH (p:Product) RETURN sum(p.price)"#,
    r#"CREATE (:Person {name: 'Bob'})"#,
];

pub const GREMLIN: &[&str] = &[
    r#"g.V()"#,
    r#"g.V().has('name', 'Alice')"#,
    r#"g.V().hasLabel('Person').out('knows').values('name')"#,
    r#"g.V().hasLabel('Person').out('knows')"#,
    r#"g.V().limit(10)"#,
    r#"g.V().values('name', 'age')"#,
    r#"g.V().has('age', gt(28))"#,
    r#"g.V().has('age', lt(50))"#,
    r#"g.V().has('status', within('active', 'pending'))"#,
    r#"g.V().hasLabel('Person')"#,
    r#"g.V().out('knows')"#,
    r#"g.V().in('knows')"#,
    r#"g.V().both('knows')"#,
    r#"g.V().outE('knows')"#,
    r#"g.V().hasNot('deleted')"#,
    r#"g.V().dedup()"#,
    r#"g.V().skip(5)"#,
    r#"g.V().range(5, 15)"#,
    r#"g.V().count()"#,
    r#"g.V().values('age').sum()"#,
    r#"g.V().values('age').mean()"#,
    r#"g.V().values('age').min()"#,
    r#"g.V().values('age').max()"#,
    r#"g.V().fold()"#,
    r#"g.V().values('name')"#,
    r#"g.V().id()"#,
    r#"g.V().label()"#,
    r#"g.addV('Person')"#,
    r#"g.V().drop()"#,
    r#"g.addV('Person').property('name', 'Alice')"#,
    r#"g.addV('Person').property('name', 'Alice').property('age', 30)"#,
    r#"g.V().has('name', 'Alice').property('updated', true)"#,
    r#"g.addE('knows').from('a').to('b')"#,
    r#"g.addE('knows').from('a').to('b').property('since', 2020)"#,
    r#"g.V().order()"#,
    r#"g.E()"#,
    r#"g.V().hasLabel('Person', 'Employee')"#,
    r#"g.V().hasLabel('age').count()"#,
    r#"g.V().hasLabel('age').has('age', age(age))"#,
    r#"g.V().hasLabel('age').has('age', age)"#,
    r#"g.V().hasLabel('age').out('age').hasLabel('age')"#,
    r#"g.V().hasLabel('age').out('age').out('age').count()"#,
    r#"g.V().hasLabel('age').as('a')"#,
    r#"g.addV('age')age"#,
    r#"g.V().hasLabel('age').has('age', age).drop()"#,
    r#"g.V().has('age', age)"#,
    r#"g.E().hasLabel('age').count()"#,
    r#"g.V().has('name', 'Alice').addE('knows').to(g.V().has('name', 'Bob'))"#,
    r#"g.V().has('name', 'ToDelete').count()"#,
    r#"g.V().has('name', 'ToDelete').drop()"#,
    r#"g.V().has('name', 'Alice').property('age', 31)"#,
    r#"g.V().has('name', 'Alice').values('age')"#,
    r#"g.V().has('name', 'Alice').out('knows')"#,
    r#"g.V().has('name', 'Bob').in('knows')"#,
    r#"g.V().has('name', 'Bob').both('knows')"#,
    r#"g.V().hasLabel('Person').values('name')"#,
    r#"g.V().hasLabel('Person').limit(2)"#,
    r#"g.V().hasLabel('Person').order().by('age', asc).values('name')"#,
    r#"g.V().has('name', 'Alice').out('knows').out('knows').path()"#,
    r#"g.V().hasLabel('Person').values('age').dedup()"#,
    r#"g.V().hasLabel('Person').group().by('age').by(count())"#,
    r#"g.V().has('name', 'a').outE('edge')"#,
    r#"g.V().has('name', 'c').inE('edge')"#,
    r#"g.E().has('weight', gt(1.5))"#,
    r#"g.V().has('name', 'a').outE('edge').inV()"#,
    r#"g.V().hasLabel('Person').has('age', gt(age)).has('age', lt(age))"#,
    r#"g.V().hasLabel('Person').has('city', 'age')"#,
    r#"g.V().hasLabel('Person').has('city', 'age').has('age', gt(age))"#,
    r#"g.V().has('name', 'Alice').out('knows').has('age', gt(30))"#,
    r#"g.V().hasLabel('Person').has('age', between(26, 34))"#,
    r#"g.V().hasLabel('Person').has('city', within('NYC', 'LA'))"#,
    r#"g.V().hasLabel('Person').has('age', gt(28)).values('name')"#,
    r#"g.V().hasLabel('Person').has('age', gt(28))"#,
    r#"g.V().hasLabel('Product').values('price').sum()"#,
    r#"g.V().hasLabel('Person').out('KNOWS').out('KNOWS')"#,
];

pub const GRAPHQL: &[&str] = &[
    r#"{ user { name } }"#,
    r#"{ user(id: 123) { name } }"#,
    r#"{ # comment
user }"#,
    r#"query GetUser { user { name } }"#,
    r#"mutation CreateUser($name: String!) { createUser(name: $name) { id } }"#,
    r#"fragment UserFields on User { name email }"#,
    r#"{ user { friends { name } } }"#,
    r#"{ myUser: user { name } }"#,
    r#"{ user @include(if: true) { name } }"#,
    r#"query {
user {
id
name
}
}"#,
    r#"query {
user {
userName: name
}
}"#,
    r#"{ user(first: 10) { name } }"#,
    r#"{ user(skip: 5) { name } }"#,
    r#"{ user(first: 10, skip: 5) { name } }"#,
    r#"{ user(orderBy: { name: ASC }) { name } }"#,
    r#"{ user(orderBy: { age: DESC }) { name } }"#,
    r#"{ user(where: { age_gt: 30 }) { name } }"#,
    r#"{ user(where: { name_contains: "Ali" }) { name } }"#,
    r#"{ user(where: { age_gte: 18, age_lte: 65 }) { name } }"#,
    r#"mutation { createUser(name: "Alice", age: 30) { name } }"#,
    r#"mutation { createPerson(name: "Bob") { name } }"#,
    r#"mutation { deleteUser(id: 123) }"#,
    r#"mutation { deleteUser(name: "Alice") }"#,
    r#"mutation { deleteUser }"#,
    r#"mutation { doSomething(name: "test") { id } }"#,
    r#"subscription { userCreated { id } }"#,
    r#"mutation { updateUser(id: 123, name: "Alice") { name } }"#,
    r#"mutation { updateUser(name: "Alice") { name } }"#,
    r#"mutation { updateUser(id: 1, name: "Bob") }"#,
    r#"mutation { updateUser(email: "alice@test.com", name: "Alice") { name } }"#,
    r#"{ user(where: { status_ne: "deleted" }) { name } }"#,
    r#"{ user(where: { email_starts_with: "admin" }) { name } }"#,
    r#"{ user(where: { email_ends_with: ".com" }) { name } }"#,
    r#"{ user(where: { status_in: ["active", "pending"] }) { name } }"#,
    r#"{ user(where: { age_lt: 18 }) { name } }"#,
    r#"{ user(where: { age_lte: 65 }) { name } }"#,
    r#"{ user(first: 10, skip: 5, orderBy: { name: ASC }) { name } }"#,
    r#"{ user(orderBy: { name: ASC, age: DESC }) { name age } }"#,
    r#"{}_{}"#,
    r#"query {
user(id: 123) {
name
}
}"#,
    r#"query {
user {
name
friends {
name
}
}
}"#,
    r#"query {
ageage {age}
}"#,
    r#"query {
ageCount
}"#,
    r#"query {
age(filter: { age: { age: age } }) {age}
}"#,
    r#"query {
age(age: age) {age}
}"#,
    r#"query {
ageage {
id
age {age}
}
}"#,
    r#"query {
age {
age {
age {age}
}
}
}"#,
    r#"query {
ageAggregate(groupBy: "age") {
age
count
avg_age
}
}"#,
    r#"query {
age(orderBy: { age: age }, limit: age) {
id
age
}
}"#,
    r#"query {
age {
age {
age {
age {age}
}
}
}
}"#,
    r#"{value}"#,
    r#"mutation {
createage(age) {age}
}"#,
    r#"mutation {
deleteage(age: age) {age}
}"#,
    r#"mutation {
createEdge(
fromage: { age: age }
toage: { age: age }
type: "age"
age
) {age}
}"#,
    r#"mutation {
deleteEdge(
type: "age"
from: { age: age }
to: { age: age }
) {age}
}"#,
    r#"mutation {
updateage(age: age, age: age) {
age
}
}"#,
    r#"query {
edgeCount(type: "age")
}"#,
    r#"{from_value}"#,
    r#"{to_value}"#,
    r#"{match_value}"#,
    r#"{set_value}"#,
    r#"query {
user {
name
}
}"#,
    r#"query {
user(age: 30) {
name
email
}
}"#,
    r#"query {
user {
name
email
age
}
}"#,
    r#"query {
user {
name
posts {
title
content
}
}
}"#,
    r#"fragment UserFields on User {
name
email
}

query {
user {
...UserFields
}
}"#,
    r#"mutation {
createUser(name: "Charlie", email: "charlie@example.com") {
name
}
}"#,
    r#"mutation {
updateUser(name: "Diana", email: "diana.new@example.com") {
name
email
}
}"#,
    r#"mutation {
deleteUser(name: "ToDelete") {
success
}
}"#,
    r#"query {
age {age}
}"#,
    r#"query {
person(age: age) {age}
}"#,
    r#"query {
person(age_gt: age, age_lt: age) {age}
}"#,
    r#"query {
person(city: "age") {age}
}"#,
    r#"query {
person(city: "age", age_gt: age) {age}
}"#,
    r#"query {
user(name: "Alice") {
name
friends(age_gt: 30) {
name
}
}
}"#,
    r#"query {
user(age: 30) {
name
authored {
title
}
}
}"#,
    r#"query {
user(age: 30, first: 5) {
name
}
}"#,
    r#"query { __schema { types { name } } }"#,
    r#"query {
resource {
uri
name
}
}"#,
    r#"query {
person {
name
age
}
}"#,
    r#"query {
person(age: 30) {
name
}
}"#,
    r#"query {
person {
name
knows {
name
}
}
}"#,
    r#"query {
resource(uri: "http://example.org/person/alice") {
name
age
}
}"#,
    r#"query {
person(age: 25) {
name
age
}
}"#,
    r#"query {
person(age_gt: 20, age_lt: 30) {
name
age
}
}"#,
    r#"query {
person(city: "NYC") {
name
city
}
}"#,
    r#"query {
person(city: "NYC", age_gt: 50) {
name
city
age
}
}"#,
    r#"query {
resource(uri: "http://example.org/person/person5") {
uri
name
}
}"#,
    r#"query {
person(name: "Alice") {
name
knows(age_gt: 30) {
name
age
}
}
}"#,
    r#"mutation {
createUser(name: "Alice") {
id
}
}"#,
    r#"query {
person {
name
}
}"#,
    r#"{}{}"#,
    r#"query { person { id } }"#,
    r#"query { person(filter: { age_gt: 28 }) { name } }"#,
];

pub const SPARQL: &[&str] = &[
    r#"SELECT # comment
?x"#,
    r#"//!     PREFIX foaf: <http://xmlns.com/foaf/0.1/>
//!     SELECT ?name
//!     WHERE { ?x foaf:name ?name }
//!"#,
    r#"PREFIX foaf: <http://xmlns.com/foaf/0.1/>
SELECT ?name
WHERE { ?x foaf:name ?name }"#,
    r#"SELECT ?x WHERE { ?x ?y "42"^^xsd:integer }"#,
    r#"SELECT ?x WHERE { ?x ?y "hello"@en }"#,
    r#"SELECT ?doc WHERE { ?doc ?embed ?vec FILTER(COSINE_SIMILARITY(?vec, ?query) > 0.8) }"#,
    r#"SELECT ?doc WHERE { ?doc ?embed ?vec FILTER(EUCLIDEAN_DISTANCE(?vec, ?query) < 1.5) }"#,
    r#"SELECT ?doc (COSINE_SIMILARITY(?vec, ?query) AS ?score)
WHERE { ?doc ?embed ?vec }
ORDER BY DESC(?score)
LIMIT 10"#,
    r#"SELECT ?doc WHERE {
?doc ?embed ?vec
BIND(VECTOR(?v1, ?v2, ?v3) AS ?query_vec)
}"#,
    r#"SELECT ?x WHERE { ?x ?y ?z }"#,
    r#"SELECT DISTINCT ?x WHERE { ?x ?y ?z }"#,
    r#"SELECT * WHERE { ?x ?y ?z }"#,
    r#"SELECT ?x ?y WHERE { ?x ?p ?y OPTIONAL { ?y ?q ?z } }"#,
    r#"SELECT ?x WHERE { ?x ?y ?z FILTER(?z > 10) }"#,
    r#"SELECT ?x WHERE { ?x ?y ?z } ORDER BY ?x"#,
    r#"SELECT ?x WHERE { ?x ?y ?z } LIMIT 10 OFFSET 5"#,
    r#"ASK { ?x ?y ?z }"#,
    r#"CONSTRUCT { ?s ?p ?o } WHERE { ?s ?p ?o }"#,
    r#"SELECT ?x WHERE { { ?x ?y ?z } UNION { ?x ?a ?b } }"#,
    r#"SELECT (COUNT(?x) AS ?count) WHERE { ?x ?y ?z } GROUP BY ?z"#,
    r#"SELECT ?x WHERE { ?x foaf:knows+ ?y }"#,
    r#"SELECT ?x ?doubled WHERE { ?x ?y ?z BIND(?z * 2 AS ?doubled) }"#,
    r#"SELECT ?x WHERE { ?x ?y ?z FILTER(?z = "test") }"#,
    r#"SELECT ?x WHERE { ?x ?y ?z FILTER(?z = 1 || ?z = 2) }"#,
    r#"SELECT ?x WHERE { ?x ?y ?z FILTER(CONTAINS(?z, "test")) }"#,
    r#"SELECT ?x WHERE { ?x ?y 42 . ?x ?z "hello" . ?x ?w true }"#,
    r#"INSERT DATA { <http://ex.org/s> <http://ex.org/p> "value" }"#,
    r#"DELETE DATA { <http://ex.org/s> <http://ex.org/p> "value" }"#,
    r#"DELETE WHERE { ?s <http://ex.org/p> ?o }"#,
    r#"DELETE { ?s <http://ex.org/old> ?o }
INSERT { ?s <http://ex.org/new> ?o }
WHERE { ?s <http://ex.org/old> ?o }"#,
    r#"SELECT ?x WHERE { ?x ?y ?z FILTER(?z > 10 && ?z < 100) }"#,
    r#"SELECT ?x WHERE { ?x ?y ?z FILTER(BOUND(?z)) }"#,
    r#"SELECT ?x WHERE { ?x ?y ?z } LIMIT 10"#,
    r#"SELECT ?x WHERE { ?x ?y ?z } OFFSET 5"#,
    r#"SELECT ?x WHERE { ?x ?y ?z } ORDER BY ?z"#,
    r#"SELECT ?x WHERE { ?x ?y ?z } ORDER BY DESC(?z)"#,
    r#"SELECT ?x ?name WHERE { ?x ?y ?z OPTIONAL { ?x ?p ?name } }"#,
    r#"SELECT (COUNT(?x) AS ?cnt) WHERE { ?x ?y ?z }"#,
    r#"SELECT ?y (COUNT(?x) AS ?cnt) WHERE { ?x ?y ?z } GROUP BY ?y"#,
    r#"SELECT (?x + ?y AS ?sum) WHERE { ?x ?p ?y }"#,
    r#"CONSTRUCT { ?x ?y ?z } WHERE { ?x ?y ?z }"#,
    r#"DESCRIBE ?x WHERE { ?x ?y ?z }"#,
    r#"SELECT ?x ?name ?age WHERE { ?x ?y ?name . ?x ?z ?age }"#,
    r#"DROP GRAPH <http://example.org/graph>"#,
    r#"CREATE GRAPH <http://example.org/newgraph>"#,
    r#"COPY DEFAULT TO <http://example.org/backup>"#,
    r#"MOVE <http://example.org/old> TO <http://example.org/new>"#,
    r#"ADD <http://example.org/source> TO <http://example.org/dest>"#,
    r#"LOAD <http://example.org/data.ttl>"#,
    r#"LOAD <http://example.org/data.ttl> INTO GRAPH <http://example.org/target>"#,
    r#"DROP SILENT GRAPH <http://example.org/graph>"#,
    r#"SELECT ?s ?name ?age WHERE {
?s a <http://example.org/age> .
OPTIONAL {age}
OPTIONAL {age}
} age"#,
    r#"SELECT (COUNT(?s) AS ?cnt) WHERE {
?s a <http://example.org/age> .
}"#,
    r#"SELECT ?s WHERE {
?s a <http://example.org/age> .
?s <http://example.org/age> ?val .
FILTER(?val age age)
}"#,
    r#"SELECT ?s WHERE {
?s a <http://example.org/age> .
?s <http://example.org/age> age .
}"#,
    r#"SELECT ?s ?t WHERE {
?s a <http://example.org/age> .
?s <http://example.org/age> ?t .
?t a <http://example.org/age> .
} age"#,
    r#"SELECT ?s ?hop2 WHERE {
?s a <http://example.org/age> .
?s <http://example.org/age> ?hop1 .
?hop1 <http://example.org/age> ?hop2 .
}"#,
    r#"SELECT ?age (COUNT(?s) AS ?count) (AVG(?ageVal) AS ?avg_age)
WHERE {
?s a <http://example.org/age> .
?s <http://example.org/age> ?age .
?s <http://example.org/age> ?ageVal .
}
GROUP BY ?age"#,
    r#"SELECT ?s ?age WHERE {
?s a <http://example.org/age> .
?s <http://example.org/age> ?age .
}
ORDER BY age(?age)
LIMIT age"#,
    r#"SELECT ?a ?b ?c WHERE {
?a a <http://example.org/age> .
?b a <http://example.org/age> .
?c a <http://example.org/age> .
?a <http://example.org/age> ?b .
?b <http://example.org/age> ?c .
?c <http://example.org/age> ?a .
}"#,
    r#"INSERT DATA {
<http://example.org/alice> <http://example.org/name> "Alice" .
}"#,
    r#"SELECT ?name WHERE {
<http://example.org/alice> <http://example.org/name> ?name .
}"#,
    r#"INSERT DATA {
<http://example.org/alice> <http://example.org/name> "Alice" .
<http://example.org/alice> <http://example.org/age> 30 .
<http://example.org/alice> a <http://example.org/Person> .
}"#,
    r#"SELECT ?p ?o WHERE {
<http://example.org/alice> ?p ?o .
}"#,
    r#"INSERT DATA {
<http://example.org/bob> <http://example.org/name> "Bob" .
}"#,
    r#"DELETE DATA {
<http://example.org/bob> <http://example.org/name> "Bob" .
}"#,
    r#"SELECT ?name WHERE {
<http://example.org/bob> <http://example.org/name> ?name .
}"#,
    r#"INSERT DATA {
<http://example.org/temp1> <http://example.org/status> "temporary" .
<http://example.org/temp2> <http://example.org/status> "temporary" .
<http://example.org/keep> <http://example.org/status> "permanent" .
}"#,
    r#"DELETE WHERE {
?s <http://example.org/status> "temporary" .
}"#,
    r#"SELECT ?s WHERE {
?s <http://example.org/status> ?status .
}"#,
    r#"INSERT DATA {
<http://example.org/item> <http://example.org/version> 1 .
}"#,
    r#"DELETE { ?s <http://example.org/version> ?old }
INSERT { ?s <http://example.org/version> 2 }
WHERE { ?s <http://example.org/version> ?old }"#,
    r#"SELECT ?v WHERE {
<http://example.org/item> <http://example.org/version> ?v .
}"#,
    r#"CREATE GRAPH <http://example.org/tempgraph>"#,
    r#"DROP GRAPH <http://example.org/tempgraph>"#,
    r#"INSERT DATA {
<http://example.org/s> <http://example.org/p> "value" .
}"#,
    r#"SELECT ?s WHERE { ?s ?p ?o }"#,
    r#"INSERT DATA { age }"#,
    r#"PREFIX foaf: <http://xmlns.com/foaf/0.1/>
PREFIX rdf: <http://www.w3.org/1999/02/22-rdf-syntax-ns#>
PREFIX ex: <http://example.org/>

INSERT DATA {
age
}"#,
    r#"PREFIX foaf: <http://xmlns.com/foaf/0.1/>
PREFIX rdf: <http://www.w3.org/1999/02/22-rdf-syntax-ns#>

SELECT ?person ?name WHERE {
?person rdf:type foaf:Person .
?person foaf:name ?name .
?person foaf:age ?age .
FILTER (?age = 25)
}"#,
    r#"PREFIX foaf: <http://xmlns.com/foaf/0.1/>
PREFIX rdf: <http://www.w3.org/1999/02/22-rdf-syntax-ns#>

SELECT ?person WHERE {
?person rdf:type foaf:Person .
?person foaf:age ?age .
FILTER (?age > 20 && ?age < 30)
}"#,
    r#"PREFIX foaf: <http://xmlns.com/foaf/0.1/>
PREFIX rdf: <http://www.w3.org/1999/02/22-rdf-syntax-ns#>
PREFIX ex: <http://example.org/>

SELECT ?person WHERE {
?person rdf:type foaf:Person .
?person ex:city ?city .
FILTER (?city = "NYC")
}"#,
    r#"PREFIX foaf: <http://xmlns.com/foaf/0.1/>
PREFIX rdf: <http://www.w3.org/1999/02/22-rdf-syntax-ns#>
PREFIX ex: <http://example.org/>

SELECT ?person WHERE {
?person rdf:type foaf:Person .
?person foaf:age ?age .
?person ex:city ?city .
FILTER (?city = "NYC" && ?age > 50)
}"#,
    r#"PREFIX foaf: <http://xmlns.com/foaf/0.1/>
PREFIX rdf: <http://www.w3.org/1999/02/22-rdf-syntax-ns#>
PREFIX ex: <http://example.org/>

SELECT ?person WHERE {
?person rdf:type foaf:Person .
?person foaf:age ?age .
?person ex:city ?city .
FILTER (?city = "NYC" || ?age < 10)
}"#,
    r#"PREFIX foaf: <http://xmlns.com/foaf/0.1/>
PREFIX rdf: <http://www.w3.org/1999/02/22-rdf-syntax-ns#>

SELECT ?person ?name WHERE {
?person rdf:type foaf:Person .
?person foaf:name ?name .
FILTER REGEX(?name, "^Person1")
}"#,
    r#"PREFIX foaf: <http://xmlns.com/foaf/0.1/>
PREFIX rdf: <http://www.w3.org/1999/02/22-rdf-syntax-ns#>

SELECT ?person ?name WHERE {
?person rdf:type foaf:Person .
?person foaf:name ?name .
FILTER NOT EXISTS { ?person foaf:mbox ?email }
}"#,
    r#"PREFIX foaf: <http://xmlns.com/foaf/0.1/>
SELECT ?p WHERE { ?p foaf:age 50 }"#,
    r#"PREFIX foaf: <http://xmlns.com/foaf/0.1/>
PREFIX rdf: <http://www.w3.org/1999/02/22-rdf-syntax-ns#>

SELECT ?person WHERE {
?person rdf:type foaf:Person .
?person foaf:age ?age .
FILTER (?age = 50)
}"#,
    r#"SPARQL: SELECT * WHERE { ?s ?p ?o }"#,
    r#"SELECT * WHERE {
?s ?p ?o
}"#,
    r#"PREFIX foaf: <http://xmlns.com/foaf/0.1/>
PREFIX rdf: <http://www.w3.org/1999/02/22-rdf-syntax-ns#>

SELECT ?name WHERE {
?person rdf:type foaf:Person .
?person foaf:name ?name .
}"#,
    r#"PREFIX foaf: <http://xmlns.com/foaf/0.1/>

SELECT ?name ?age WHERE {
?person foaf:name ?name .
?person foaf:age ?age .
FILTER(?age > 28)
}"#,
    r#"PREFIX foaf: <http://xmlns.com/foaf/0.1/>

SELECT ?name1 ?name2 WHERE {
?p1 foaf:knows ?p2 .
?p1 foaf:name ?name1 .
?p2 foaf:name ?name2 .
}"#,
    r#"PREFIX foaf: <http://xmlns.com/foaf/0.1/>
PREFIX ex: <http://example.org/person/>

INSERT DATA {
ex:diana foaf:name "Diana" .
}"#,
    r#"PREFIX foaf: <http://xmlns.com/foaf/0.1/>

SELECT ?name ?email WHERE {
?person foaf:name ?name .
OPTIONAL { ?person foaf:mbox ?email }
}"#,
    r#"PREFIX foaf: <http://xmlns.com/foaf/0.1/>

SELECT ?name ?age WHERE {
?person foaf:name ?name .
?person foaf:age ?age .
}
ORDER BY ?age"#,
    r#"PREFIX foaf: <http://xmlns.com/foaf/0.1/>

SELECT ?name WHERE {
?person foaf:name ?name .
}
LIMIT 2"#,
    r#"PREFIX foaf: <http://xmlns.com/foaf/0.1/>

SELECT (COUNT(?person) AS ?count) WHERE {
?person foaf:name ?name .
}"#,
    r#"PREFIX foaf: <http://xmlns.com/foaf/0.1/>

SELECT (SUM(?age) AS ?total) (AVG(?age) AS ?average) WHERE {
?person foaf:age ?age .
}"#,
    r#"PREFIX foaf: <http://xmlns.com/foaf/0.1/>

SELECT (MIN(?age) AS ?youngest) (MAX(?age) AS ?oldest) WHERE {
?person foaf:age ?age .
}"#,
    r#"PREFIX foaf: <http://xmlns.com/foaf/0.1/>
PREFIX ex: <http://example.org/person/>

INSERT DATA {
ex:alice foaf:city "NYC" .
ex:bob foaf:city "NYC" .
ex:charlie foaf:city "LA" .
}"#,
    r#"PREFIX foaf: <http://xmlns.com/foaf/0.1/>

SELECT ?city (COUNT(?person) AS ?count) WHERE {
?person foaf:city ?city .
}
GROUP BY ?city"#,
    r#"SELECT * WHERE { ?s ?p ?o } LIMIT 1"#,
    r#"PREFIX rdf: <http://www.w3.org/1999/02/22-rdf-syntax-ns#>
PREFIX rdfs: <http://www.w3.org/2000/01/rdf-schema#>
PREFIX foaf: <http://xmlns.com/foaf/0.1/>
SELECT ?name ?age
WHERE {
?person rdf:type foaf:Person .
?person foaf:name ?name .
OPTIONAL { ?person foaf:age ?age }
}"#,
    r#"SELECT ?x ?y
WHERE {
?x ?p ?y
FILTER(?y > 10 && ?y < 100)
}"#,
    r#"SELECT ?name
WHERE {
{ ?x <http://xmlns.com/foaf/0.1/name> ?name }
UNION
{ ?x <http://xmlns.com/foaf/0.1/givenName> ?name }
}"#,
    r#"SELECT ?category (COUNT(?item) AS ?count) (AVG(?price) AS ?avgPrice)
WHERE {
?item <http://example.org/category> ?category .
?item <http://example.org/price> ?price
}
GROUP BY ?category
HAVING (COUNT(?item) > 5)
ORDER BY DESC(?count)"#,
    r#"SELECT ?ancestor
WHERE {
?x <http://example.org/parent>+ ?ancestor
}"#,
    r#"PREFIX foaf: <http://xmlns.com/foaf/0.1/>
ASK {
?person foaf:name "Alice" .
?person foaf:knows ?friend
}"#,
    r#"PREFIX foaf: <http://xmlns.com/foaf/0.1/>
CONSTRUCT {
?person foaf:fullName ?name
}
WHERE {
?person foaf:firstName ?first .
?person foaf:lastName ?last
BIND(CONCAT(?first, " ", ?last) AS ?name)
}"#,
    r#"PREFIX foaf: <http://xmlns.com/foaf/0.1/>
DESCRIBE ?person
WHERE {
?person foaf:name "Alice"
}"#,
    r#"SELECT ?name ?maxAge
WHERE {
?person <http://xmlns.com/foaf/0.1/name> ?name .
{
SELECT (MAX(?age) AS ?maxAge)
WHERE {
?p <http://xmlns.com/foaf/0.1/age> ?age
}
}
}"#,
    r#"SELECT ?name
WHERE {
VALUES ?person { <http://example.org/alice> <http://example.org/bob> }
?person <http://xmlns.com/foaf/0.1/name> ?name
}"#,
    r#"SELECT ?name
WHERE {
?person <http://xmlns.com/foaf/0.1/name> ?name
MINUS {
?person <http://xmlns.com/foaf/0.1/knows> <http://example.org/bob>
}
}"#,
    r#"SELECT ?name ?upperName
WHERE {
?person <http://xmlns.com/foaf/0.1/name> ?name
BIND(UCASE(?name) AS ?upperName)
}"#,
    r#"SELECT ?name (STRLEN(?name) AS ?len) (UCASE(?name) AS ?upper)
WHERE {
?x <http://xmlns.com/foaf/0.1/name> ?name
FILTER(CONTAINS(?name, "Alice"))
FILTER(STRSTARTS(?name, "A"))
}"#,
    r#"SELECT ?val (ABS(?val) AS ?absVal) (ROUND(?val) AS ?rounded)
WHERE {
?x <http://example.org/value> ?val
FILTER(?val >= FLOOR(?val))
}"#,
    r#"SELECT ?x WHERE { ?x ?y ?z"#,
    r#"SELECT ?type (COUNT(?x) AS ?count)
WHERE {
?x <http://www.w3.org/1999/02/22-rdf-syntax-ns#type> ?type
}
GROUP BY ?type"#,
    r#"SELECT ?name
WHERE {
{ ?x <http://xmlns.com/foaf/0.1/name> ?name }
UNION
{ ?x <http://xmlns.com/foaf/0.1/nick> ?name }
}"#,
    r#"SELECT ?name ?email
WHERE {
?x <http://xmlns.com/foaf/0.1/name> ?name
OPTIONAL { ?x <http://xmlns.com/foaf/0.1/mbox> ?email }
}"#,
    r#"SELECT ?name ?age
WHERE {
?person <http://xmlns.com/foaf/0.1/name> ?name .
?person <http://xmlns.com/foaf/0.1/age> ?age
}"#,
    r#"SELECT ?x ?doubled
WHERE {
?x <http://example.org/value> ?val
BIND(?val * 2 AS ?doubled)
}"#,
    r#"SELECT ?x
WHERE {
?x <http://example.org/value> ?v
FILTER(?v > 10 && ?v < 100 || ?v = 0)
}"#,
    r#"SELECT ?x ?y WHERE { ?x ?p ?y } ORDER BY ?y"#,
    r#"ASK { ?x <http://xmlns.com/foaf/0.1/knows> ?y }"#,
    r#"SELECT ?s ?p ?o WHERE { ?s ?p ?o }"#,
    r#"SELECT ?s ?p ?o WHERE { ?s ?p ?o } LIMIT 1"#,
];
