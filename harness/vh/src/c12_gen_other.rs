//! C12 corpus for Gremlin and GraphQL (SPARQL in c12_gen_sq.rs).

use super::super::{Input, L_GRAPHQL, L_GREMLIN};
use super::{chain, nest, wrap, Nest, EXTREME_NUMS};
use crate::rng::Rng;

#[path = "c12_gen_sq.rs"]
mod sq;
pub use sq::{gen_sparql, sparql_directed, sparql_nests};

// =====================================================================================
// Gremlin
// =====================================================================================

const G_KEYS: [&str; 10] = ["name", "age", "score", "active", "id", "tags", "vec", "since", "weight", "nope"];
const G_LABELS: [&str; 6] = ["Person", "City", "Company", "Thing", "K", "Nope"];
const G_TYPES: [&str; 5] = ["KNOWS", "LIVES_IN", "WORKS_AT", "REL", "nope"];
const G_VALS: [&str; 16] = ["30", "0", "-1", "9223372036854775807", "-9223372036854775808", "1.5", "1e308", "'Alice'", "''", "\"b\"", "true", "false", "'Zoë'", "7", "42", "2.0"];
pub const G_STEPS0: [&str; 30] = [
    "out()", "in()", "both()", "outE()", "inE()", "bothE()", "outV()", "inV()", "bothV()", "otherV()", "dedup()", "valueMap()", "elementMap()", "id()", "label()", "properties()",
    "count()", "sum()", "mean()", "min()", "max()", "fold()", "unfold()", "group()", "groupCount()", "path()", "order()", "drop()", "by()", "values()",
];

fn g_val(r: &mut Rng) -> String {
    if r.chance(0.1) { (*r.pick(&EXTREME_NUMS)).to_string() } else { (*r.pick(&G_VALS)).to_string() }
}

fn g_pred(r: &mut Rng) -> String {
    let p = if r.chance(0.5) { "P." } else { "" };
    match r.below(8) {
        0 => format!("{p}{}({})", r.pick(&["eq", "neq", "lt", "lte", "gt", "gte"]), g_val(r)),
        1 => format!("{p}{}({}, {})", r.pick(&["within", "without"]), g_val(r), g_val(r)),
        2 => format!("{p}{}()", r.pick(&["within", "without"])),
        3 => format!("{p}{}({}, {})", r.pick(&["between", "inside", "outside"]), g_val(r), g_val(r)),
        4 => format!("{p}{}({})", r.pick(&["containing", "startingWith", "endingWith", "regex"]), r.pick(&["'A'", "''", "'(a+)+$'", "'['", "'li'"])),
        5 => format!("{p}gt({})", g_val(r)),
        6 => format!("{p}eq({})", g_val(r)),
        _ => format!("{p}within({})", (0..r.below(5)).map(|_| g_val(r)).collect::<Vec<_>>().join(", ")),
    }
}

fn g_step(r: &mut Rng) -> String {
    let key = |r: &mut Rng| format!("'{}'", r.pick(&G_KEYS));
    match r.below(30) {
        0..=3 => format!("{}('{}')", r.pick(&["out", "in", "both", "outE", "inE", "bothE"]), r.pick(&G_TYPES)),
        4 => (*r.pick(&G_STEPS0)).to_string(),
        5 => format!("has({})", key(r)),
        6..=7 => format!("has({}, {})", key(r), g_val(r)),
        8..=9 => format!("has({}, {})", key(r), g_pred(r)),
        10 => format!("has('{}', {}, {})", r.pick(&G_LABELS), key(r), g_val(r)),
        11 => format!("hasLabel('{}')", r.pick(&G_LABELS)),
        12 => format!("hasId({})", g_val(r)),
        13 => format!("hasNot({})", key(r)),
        14 => format!("limit({})", r.pick(&["0", "1", "5", "9223372036854775807", "-1"])),
        15 => format!("skip({})", r.pick(&["0", "1", "5", "9223372036854775807", "-1"])),
        16 => format!("range({}, {})", r.pick(&["0", "1", "5", "-1", "9223372036854775807"]), r.pick(&["0", "1", "3", "-1", "9223372036854775807"])),
        17 => format!("values({})", (0..1 + r.below(2)).map(|_| key(r)).collect::<Vec<_>>().join(", ")),
        18 => format!("constant({})", g_val(r)),
        19 => format!("as('{}')", r.pick(&["a", "b"])),
        20 => format!("select({})", r.pick(&["'a'", "'a', 'b'", "'nope'", ""])),
        21 => format!("project('x', 'y').by({}).by({})", key(r), r.pick(&["", "'name'", "T.id", "T.label", "count()", "values('age')", "'age', desc"])),
        22 => format!("order().by({})", r.pick(&["", "'name'", "'age', desc", "'score', asc", "'nope', shuffle", "T.id", "desc", "count()"])),
        23 => format!("group().by({}).by({})", key(r), r.pick(&["", "count()", "'age'", "sum()", "fold()", "values('age')", "mean()"])),
        24 => format!("groupCount().by({})", r.pick(&["'name'", "T.label", "", "'tags'"])),
        25 => format!("{}('x')", r.pick(&["aggregate", "store"])),
        26 => format!("property({}{}, {})", r.pick(&["", "single, ", "list, ", "set, "]), key(r), g_val(r)),
        27 => format!("addE('{}').from({}).to({})", r.pick(&G_TYPES), r.pick(&["'a'", "g.V(0)", "g.V().has('id', 1)"]), r.pick(&["'b'", "g.V(1)", "g.V().hasLabel('City')"])),
        28 => format!("addV('{}')", r.pick(&G_LABELS)),
        _ => format!("dedup().by({})", key(r)),
    }
}

pub fn gen_gremlin(r: &mut Rng) -> String {
    let mut s = match r.below(10) {
        0..=4 => "g.V()".to_string(),
        5 => format!("g.V({})", g_val(r)),
        6 => "g.E()".to_string(),
        7 => format!("g.E({})", g_val(r)),
        8 => format!("g.addV('{}')", r.pick(&G_LABELS)),
        _ => format!("g.addE('{}').from(g.V({})).to(g.V({}))", r.pick(&G_TYPES), r.below(25), r.below(25)),
    };
    let n = r.below(7);
    for _ in 0..n {
        s.push('.');
        s.push_str(&g_step(r));
    }
    s
}

pub fn gremlin_nests() -> Vec<Nest> {
    let l = L_GREMLIN;
    vec![
        nest(l, "from-subtraversal", |d| wrap("g.addE('x')", ".from(g.V().addE('x')", "", ")", "", d)),
        nest(l, "to-subtraversal", |d| wrap("g.V().addE('x')", ".to(g.V().addE('x')", ".to(g.V(0))", ")", "", d)),
        nest(l, "chain-out", |d| chain("g.V().hasLabel('Nope')", ".out('nope')", "", "", d)),
        nest(l, "chain-has", |d| chain("g.V()", ".has('age', gt(0))", "", "", d)),
        nest(l, "chain-as", |d| chain("g.V().hasLabel('Nope')", ".as('a')", "", "", d)),
        nest(l, "chain-dedup", |d| chain("g.V()", ".dedup()", "", ".count()", d)),
        nest(l, "chain-by", |d| chain("g.V().order()", ".by('name')", "", "", d)),
        nest(l, "chain-property", |d| chain("g.addV('T')", ".property('a', 1)", "", "", d)),
        nest(l, "within-list", |d| chain("g.V().has('age', within(", "1", ",", "))", d)),
        nest(l, "values-list", |d| chain("g.V().values(", "'a'", ",", ")", d)),
        nest(l, "id-list", |d| chain("g.V(", "1", ",", ")", d)),
        nest(l, "paren-garbage", |d| wrap("g.V().has(", "(", "1", ")", ")", d)),
        nest(l, "bracket-garbage", |d| wrap("g.V().has('a', ", "[", "1", "]", ")", d)),
        nest(l, "chain-project-by", |d| chain("g.V().hasLabel('Nope').project('a')", ".by('name')", "", "", d)),
        nest(l, "chain-limit", |d| chain("g.V()", ".limit(1)", "", "", d)),
    ]
}

pub fn gremlin_directed(v: &mut Vec<Input>) {
    let l = L_GREMLIN;
    macro_rules! add { ($f:expr, $x:expr, $q:expr) => { v.push(Input::new(l, $x, $f, $q)) }; }
    // every zero-arg step after V() and E(); every pair of them
    for a in G_STEPS0 {
        add!("steps", 1, format!("g.V().{a}"));
        add!("steps", 1, format!("g.E().{a}"));
        add!("steps", 0, format!("g.V().{a}"));
        add!("steps", 1, format!("g.V().values('age').{a}"));
        add!("steps", 1, format!("g.V().values('name', 'score', 'tags', 'nope').{a}"));
        add!("steps", 1, format!("g.addV('X').{a}"));
        for b in G_STEPS0 {
            add!("steps", 1, format!("g.V().{a}.{b}"));
            add!("steps", 1, format!("g.V().hasLabel('Person').outE('KNOWS').{a}.{b}"));
        }
    }
    // numeric extremes in every numeric position
    for x in EXTREME_NUMS {
        for t in [
            "g.V({x})", "g.E({x})", "g.V({x}, {x})", "g.V().hasId({x})", "g.V().limit({x})", "g.V().skip({x})", "g.V().range({x}, {x})", "g.V().range(0, {x})", "g.V().range({x}, 1)",
            "g.V().has('age', {x})", "g.V().has('age', gt({x}))", "g.V().has('age', between({x}, {x}))", "g.V().has('age', within({x}, {x}))", "g.V().constant({x})", "g.V().constant({x}).sum()",
            "g.addV('N').property('v', {x})", "g.V().values('age').is({x})", "g.V().order().by('age').limit({x})", "g.V().values('age').limit({x}).sum()", "g.V().has('score', lt({x}))",
            "g.V().has('age', inside({x}, {x}))", "g.V().has('age', outside(0, {x}))", "g.addE('T').from(g.V({x})).to(g.V({x}))", "g.V().hasLabel('Person').values('age').range({x}, {x}).mean()",
        ] {
            add!("numeric", 1, t.replace("{x}", x));
        }
    }
    // aggregation over extreme values (overflow in sum/mean), type confusion
    for q in [
        "g.V().values('age').sum()", "g.V().values('age').mean()", "g.V().values('age').min()", "g.V().values('age').max()", "g.V().values('age').fold()", "g.V().values('score').sum()",
        "g.V().values('score').mean()", "g.V().values('score').min()", "g.V().values('score').max()", "g.V().values('score').order()", "g.V().order().by('score')", "g.V().order().by('score', desc)",
        "g.V().order().by('age', desc).values('age')", "g.V().order().by('tags')", "g.V().order().by('name').by('age', desc)", "g.V().values('name').sum()", "g.V().values('name').mean()", "g.V().values('tags').sum()",
        "g.V().values('name', 'age').sum()", "g.V().values('name', 'age').order()", "g.V().values('name', 'age').min()", "g.V().values('name', 'age').max()", "g.V().values('vec').sum()", "g.V().values('age').dedup().count()",
        "g.E().values('since').sum()", "g.E().values('weight').mean()", "g.E().values('since').max()", "g.V().hasLabel('City').values('population').sum()", "g.V().group().by('active').by(sum())",
        "g.V().group().by('active').by(values('age'))", "g.V().group().by('active').by('age')", "g.V().group().by('score')", "g.V().group().by('tags')", "g.V().groupCount().by('score')", "g.V().groupCount().by('vec')",
        "g.V().group().by(T.label).by(count())", "g.V().group().by(T.id)", "g.V().dedup().by('score')", "g.V().project('a', 'b').by('age')", "g.V().project('a').by('age').by('name')", "g.V().project().by('age')",
        "g.V().project('a', 'a').by('age').by('name')", "g.V().select('a')", "g.V().as('a').out().as('a').select('a')", "g.V().as('a').out().as('b').select('a', 'b')", "g.V().as('a').out().as('b').select('a', 'b').by('name')",
        "g.V().as('a').select('a').by('age').sum()", "g.V().by('a')", "g.V().order().by()", "g.V().count().by('a')", "g.V().out().path()", "g.V().out().out().path().by('name')", "g.V().path().by('nope')", "g.V().path().count()",
        "g.V().outE().inV().path()", "g.V().outE().otherV()", "g.V().otherV()", "g.V().inV()", "g.V().outV()", "g.E().out()", "g.E().outE()", "g.E().hasLabel('KNOWS').bothV().dedup().count()", "g.E().label().dedup()",
        "g.V().label().dedup()", "g.V().id().sum()", "g.V().id().max()", "g.E().id().mean()", "g.V().properties()", "g.V().properties('name')", "g.V().properties('nope').count()", "g.V().valueMap('name', 'age')", "g.V().valueMap(true)",
        "g.V().elementMap('name')", "g.E().elementMap()", "g.E().valueMap()", "g.V().fold().unfold()", "g.V().fold().count()", "g.V().values('tags').unfold()", "g.V().values('name').unfold()", "g.V().unfold()", "g.V().count().unfold()",
        "g.V().count().fold()", "g.V().fold().fold().unfold().unfold()", "g.V().limit(0).fold()", "g.V().limit(0).sum()", "g.V().limit(0).mean()", "g.V().limit(0).min()", "g.V().limit(0).max()", "g.V().hasLabel('Nope').values('age').mean()",
        "g.V().drop()", "g.E().drop()", "g.V().hasLabel('Person').drop().count()", "g.V().out().drop()", "g.V().outE().drop()", "g.V().properties('age').drop()", "g.V().values('age').drop()", "g.V().drop().drop()",
        "g.V().property('age', 1)", "g.V().property('age', 9223372036854775807).values('age').sum()", "g.V().property(single, 'age', 1)", "g.V().property(list, 'tags', 'x')", "g.V().property(set, 'tags', 'x')", "g.V().property('', '')",
        "g.E().property('w', 1.5)", "g.V().property('a')", "g.V().property()", "g.V().property('a', 1, 'b')", "g.V().property(T.id, 1)", "g.V().property(T.label, 'X')", "g.addV()", "g.addV('')", "g.addV('A').addV('B')", "g.addV(1)",
        "g.addV('A', 'B')", "g.addV('Person').property('name', 'X').property('name', 'Y')", "g.addE('T')", "g.addE()", "g.addE('T').from('a')", "g.addE('T').to('b')", "g.addE('T').from('a').to('b')", "g.V().as('a').addE('T').to('a')",
        "g.V().as('a').out().addE('T').from('a')", "g.V().as('a').out().as('b').addE('T').from('a').to('b')", "g.V().addE('T').to(g.V())", "g.V().addE('T').from(g.V()).to(g.V())", "g.addE('T').from(g.V(0)).to(g.V(999))",
        "g.addE('T').from(g.V(-1)).to(g.V(0))", "g.addE('T').from(g.V(0)).to(g.V(0))", "g.addE('T').from(g.V(0).out()).to(g.V(1).in())", "g.addE('T').from(g.E(0)).to(g.E(1))", "g.addE('T').from(g.addV('A')).to(g.addV('B'))",
        "g.addE('T').from(g.addE('U').from(g.V(0)).to(g.V(1))).to(g.V(2))", "g.addE('T').from(g.V(0)).to(g.V(1)).property('w', 1)", "g.addE('T').from(g.V(0)).from(g.V(1)).to(g.V(2)).to(g.V(3))", "g.V().from('a')", "g.V().to('a')",
        "g.V().from(g.V())", "g.V().hasLabel('Person').has('age')", "g.V().has('Person', 'age', 30)", "g.V().has('Person', 'age', gt(30))", "g.V().has('age', 30, 31)", "g.V().has()", "g.V().has(1)", "g.V().has('age', 'a')", "g.V().has('name', 30)",
        "g.V().has('tags', 'a')", "g.V().has('tags', within('a'))", "g.V().has('vec', gt(0))", "g.V().has('score', eq(0.0))", "g.V().has('score', neq(0))", "g.V().has('score', between(0, 1e308))", "g.V().has('age', between(1, 0))",
        "g.V().has('age', between('a', 1))", "g.V().has('age', within())", "g.V().has('age', without())", "g.V().has('age', within('a', 1, 1.5, true))", "g.V().has('name', containing(''))", "g.V().has('name', containing('li'))",
        "g.V().has('age', containing('3'))", "g.V().has('name', startingWith('Zo'))", "g.V().has('name', endingWith('本'))", "g.V().has('name', regex('(a+)+$'))", "g.V().has('name', regex('['))", "g.V().has('name', regex('.*'))",
        "g.V().has('name', P.regex('A.*'))", "g.V().has('name', P.nope('A'))", "g.V().has('name', P.)", "g.V().has('name', P)", "g.V().has('name', gt())", "g.V().has('name', gt(1, 2))", "g.V().has('name', gt(gt(1)))", "g.V().has('name', within(within(1)))",
        "g.V().has(T.id, 1)", "g.V().has(T.label, 'Person')", "g.V().has(id, 1)", "g.V().has(label, 'Person')", "g.V().hasLabel()", "g.V().hasLabel('Person', 'City')", "g.V().hasLabel(1)", "g.V().hasLabel(within('Person'))", "g.V().hasId()",
        "g.V().hasId('a')", "g.V().hasId(1.5)", "g.V().hasId(1, 2, 3)", "g.V().hasId(within(1, 2))", "g.V().hasNot()", "g.V().hasNot('age').count()", "g.V().hasNot('age', 1)", "g.E().has('since', gt(2005)).count()", "g.E().hasLabel('KNOWS').has('weight', lt(1.0))",
        "g.V().limit()", "g.V().limit('a')", "g.V().limit(1.5)", "g.V().limit(1, 2)", "g.V().skip()", "g.V().range()", "g.V().range(1)", "g.V().range(2, 1)", "g.V().range(-1, -1)", "g.V().limit(0)", "g.V().skip(100)", "g.V().limit(1).limit(2).skip(1)",
        "g.V().values()", "g.V().values(1)", "g.V().values('name').values('x')", "g.V().constant()", "g.V().constant('a', 'b')", "g.V().constant(null)", "g.V().constant(true).sum()", "g.V().constant('a').mean()", "g.V().constant(1).order().by('x')",
        "g.V().out('KNOWS', 'LIVES_IN')", "g.V().out(1)", "g.V().out('KNOWS').out('KNOWS').out('KNOWS').count()", "g.V().both().both().dedup().count()", "g.V().bothE().bothV().count()", "g.V().out().in().out().in().count()",
        "g.V().where(out())", "g.V().where(out().count().is(gt(1)))", "g.V().filter(out())", "g.V().not(out())", "g.V().and(out(), in())", "g.V().or(out(), in())", "g.V().coalesce(out(), in())", "g.V().optional(out())", "g.V().union(out(), in())",
        "g.V().choose(out(), in(), both())", "g.V().sideEffect(out())", "g.V().repeat(out()).times(2)", "g.V().repeat(out()).until(has('x'))", "g.V().emit()", "g.V().is(1)", "g.V().values('age').is(gt(1))", "g.V().local(out())", "g.V().map(out())",
        "g.V().flatMap(out())", "g.V().match()", "g.V().tree()", "g.V().subgraph('x')", "g.V().cap('x')", "g.V().aggregate('x').cap('x')", "g.V().store('x')", "g.V().aggregate()", "g.V().aggregate(1)", "g.V().sack()", "g.V().inject(1)", "g.inject(1)",
        "g.V().tail()", "g.V().sample(1)", "g.V().coin(0.5)", "g.V().timeLimit(1)", "g.V().simplePath()", "g.V().cyclicPath()", "g.V().out().simplePath().path()", "g.V().identity()", "g.V().barrier()", "g.V().iterate()", "g.V().next()", "g.V().toList()",
        "g.V().hasNext()", "g.V().explain()", "g.V().profile()", "g.V().math('a + b')", "g.V().index()", "g.V().loops()", "g.V().key()", "g.V().value()", "g.V().propertyMap()", "g.V().mergeV()", "g.mergeV()", "g.tx()", "g.io('x')", "g.with('x')", "g.withSack(1)",
        "g", "g.", "g.V", "g.V(", "g.V()", "g.V().", "g.V())", "g.V()(", "g.V().().", "g..V()", "g.V()..out()", "g.V().out", "g.V().out(", "g.V().out('a'", "g.V().out('a',)", "g.V().out(,)", "g.V().out(,'a')", "G.V()", "g.v()", "g.V().OUT()", "g.V() .out ( ) . count ( )",
        "g\n.V()\n.out()\n", "g.V().out()g.V()", "g.V().out() g.V()", "g.V();g.V()", "g.V().out();", "x.V()", "__.V()", "g.__.V()", "g.V().__", "g.V()._", "g.V()._()", "g.V().as_('a')", "g.V().in_()", "g.V().from_('a')", "g.V()._out()", "g.V().out_()",
        "g.V().has('a', _)", "g.V().has('a', __)", "g.V().has('a', __.out())", "g.V().has('a','b','c','d')", "g.V('a')", "g.V(true)", "g.V(1.5)", "g.V(null)", "g.V([1,2])", "g.V(1,2,3,4,5,6,7,8,9,10,11,12,13,14,15,16,17,18,19,20,21,22,23,24,25)",
        "g.E('a')", "g.E(-1)", "g.E(0).outV()", "g.E(0).inV().values('name')", "g.E(0, 1).bothV()", "g.V(0).outE().inV().inE().outV().dedup().count()", "g.V(-1)", "g.V(--1)", "g.V(-)", "g.V(- 1)", "g.V(1-1)", "g.V(1e)", "g.V(1e+)", "g.V(1.2.3)", "g.V(1..2)",
        "g.V(.5)", "g.V(1.)", "g.V().has('a', 1e400)", "g.V().has('a', -1e400)", "g.V().has('a', 1e-400)", "g.V().has('a', 99999999999999999999)", "g.V().has('a', -99999999999999999999)", "g.V().has('a', 0x10)", "g.V().has('a', 1L)", "g.V().has('a', 1.5f)",
        "g.V().has('a', 'unterminated", "g.V().has('a', \"unterminated", "g.V().has('a', 'x\\", "g.V().has('a', 'x\\'y')", "g.V().has('a', \"x\\\"y\")", "g.V().has('a', 'x\\ny\\tz\\\\')", "g.V().has('a', '\\u00e9')", "g.V().has('a', '')", "g.V().has('', '')",
        "g.V().has(name, 'Alice')", "g.V().has(name, Alice)", "g.V().out(KNOWS)", "g.V().hasLabel(Person)", "g.V().values(name)", "g.V().as(a).select(a)", "g.V().has(g, g)", "g.V().has(P, T)", "g.V().has(T)", "g.V().has(T.)", "g.V().has(T.nope)", "g.V().by(T.nope)",
        "g.V().order().by(T.id, desc)", "g.V().order().by(desc)", "g.V().order().by('name', nope)", "g.V().order().by('name',)", "g.V().order().by(shuffle)", "g.V().order().by('name', shuffle)", "g.V().order().by(count())", "g.V().order().by(values('age'))",
        "g.V().order().by(values('age'), desc)", "g.V().order().by(out().count())", "g.V().order().by(fold())", "g.V().group().by(fold())", "g.V().group().by().by()", "g.V().group().by().by().by()", "g.V().groupCount().by().by()", "g.V().dedup().by()",
    ] {
        add!("semantic", 1, q.to_string());
        add!("semantic", 0, q.to_string());
    }
    for q in ["g.V().out().out().out().count()", "g.V().both().both().both().count()", "g.V().out().out().out().path().count()", "g.V().outE().inV().outE().inV().dedup().count()", "g.V().as('a').out().as('b').out().as('c').select('a','b','c').count()", "g.V().out().out().drop()", "g.E().drop()", "g.V().group().by('id').by(count())"] {
        add!("clique", 2, q.to_string());
    }
    // parameters
    let np = crate::vals::pool().len();
    for q in ["g.V().has('age', $p)", "g.V().has('age', gt($p))", "g.V().has('name', p)", "g.V($id)", "g.V().limit($limit)", "g.V().hasLabel('Person').values('age')", "g.addV('P').property('v', $value)", "g.V().has('age', within($list))"] {
        for k in 0..np {
            if k % 2 == 0 || q.contains("gt(") {
                v.push(Input::new(l, 1, "params-pool", q).par(format!("p{k}")));
            }
        }
        v.push(Input::new(l, 1, "params-pool", q).par("all"));
        v.push(Input::new(l, 0, "params-pool", q).par("none"));
    }
}

// =====================================================================================
// GraphQL
// =====================================================================================

const Q_TYPES: [&str; 8] = ["person", "Person", "city", "company", "thing", "user", "k", "nope"];
const Q_FIELDS: [&str; 14] = ["name", "age", "score", "active", "id", "tags", "meta", "vec", "knows", "lives_in", "works_at", "KNOWS", "friends", "nope"];
const Q_SUFFIX: [&str; 11] = ["", "_gt", "_gte", "_lt", "_lte", "_ne", "_in", "_contains", "_starts_with", "_ends_with", "_nope"];

fn q_val(r: &mut Rng, d: u32) -> String {
    match r.below(if d == 0 { 8 } else { 10 }) {
        0 => r.range(-3, 50).to_string(),
        1 => (*r.pick(&EXTREME_NUMS)).to_string(),
        2 => (*r.pick(&["\"Alice\"", "\"\"", "\"a\\\"b\"", "\"\\u00e9\"", "\"\"\"block\n \"\"\"", "\"Zoë\"", "\"\\n\""])).to_string(),
        3 => (*r.pick(&["true", "false", "null"])).to_string(),
        4 => (*r.pick(&["ASC", "DESC", "ENUM_VALUE", "name"])).to_string(),
        5 => format!("${}", r.pick(&["v", "p", "name", "age", "missing"])),
        6 => format!("{}.{}", r.range(0, 99), r.below(10)),
        7 => format!("{}e{}", r.range(1, 9), r.range(-5, 400)),
        8 => format!("[{}]", (0..r.below(4)).map(|_| q_val(r, d - 1)).collect::<Vec<_>>().join(", ")),
        _ => format!("{{{}}}", (0..r.below(3)).map(|_| format!("{}{}: {}", r.pick(&Q_FIELDS), r.pick(&Q_SUFFIX), q_val(r, d - 1))).collect::<Vec<_>>().join(", ")),
    }
}

fn q_args(r: &mut Rng) -> String {
    if r.chance(0.4) {
        return String::new();
    }
    let n = 1 + r.below(3);
    let a: Vec<String> = (0..n)
        .map(|_| match r.below(8) {
            0 => format!("where: {{{}{}: {}}}", r.pick(&Q_FIELDS), r.pick(&Q_SUFFIX), q_val(r, 2)),
            1 => format!("filter: {}", q_val(r, 2)),
            2 => format!("{}: {}", r.pick(&["first", "limit"]), r.pick(&["0", "1", "5", "-1", "9223372036854775807", "18446744073709551616", "1.5", "\"a\"", "$v"])),
            3 => format!("{}: {}", r.pick(&["skip", "offset"]), r.pick(&["0", "1", "5", "-1", "9223372036854775807", "$v"])),
            4 => format!("orderBy: {}", r.pick(&["{name: ASC}", "{age: DESC}", "{nope: ASC}", "{}", "name", "[{name: ASC}]", "{name: 1}", "{score: DESC, name: ASC}", "null"])),
            5 => format!("id: {}", r.pick(&["0", "1", "-1", "9223372036854775807", "\"1\"", "1.5", "null", "$id"])),
            _ => format!("{}{}: {}", r.pick(&Q_FIELDS), r.pick(&Q_SUFFIX), q_val(r, 2)),
        })
        .collect();
    format!("({})", a.join(", "))
}

fn q_sel(r: &mut Rng, d: u32) -> String {
    let n = 1 + r.below(4);
    let mut s = String::from("{ ");
    for _ in 0..n {
        match r.below(12) {
            0..=5 => {
                if r.chance(0.2) {
                    s.push_str(&format!("al{}: ", r.below(3)));
                }
                s.push_str(*r.pick(&Q_FIELDS));
            }
            6..=7 if d > 0 => {
                s.push_str(&format!("{}{} {}", r.pick(&Q_FIELDS), q_args(r), q_sel(r, d - 1)));
            }
            8 if d > 0 => s.push_str(&format!("... on {} {}", r.pick(&["Person", "City", "Nope"]), q_sel(r, d - 1))),
            9 => s.push_str("...F"),
            10 => s.push_str(&format!("{} @{}(if: {})", r.pick(&Q_FIELDS), r.pick(&["include", "skip", "nope"]), r.pick(&["true", "false", "$v", "1", "null"]))),
            _ => s.push_str("__typename"),
        }
        s.push(' ');
    }
    s.push('}');
    s
}

pub fn gen_graphql(r: &mut Rng) -> String {
    match r.below(10) {
        0..=4 => format!("{}{{ {}{} {} }}{}", r.pick(&["", "query ", "query Q ", "query Q($v: Int = 3) "]), r.pick(&Q_TYPES), q_args(r), q_sel(r, 2), if r.chance(0.3) { " fragment F on Person { name age }" } else { "" }),
        5 => format!("{{ a: {}{} {} b: {}{} {} }}", r.pick(&Q_TYPES), q_args(r), q_sel(r, 1), r.pick(&Q_TYPES), q_args(r), q_sel(r, 1)),
        6 => format!("mutation {{ create{}{} {} }}", r.pick(&["Person", "City", "Nope", ""]), q_args(r), q_sel(r, 0)),
        7 => format!("mutation {{ update{}{} {} }}", r.pick(&["Person", "City", "Nope", ""]), q_args(r), q_sel(r, 0)),
        8 => format!("mutation {{ delete{}{} }}", r.pick(&["Person", "City", "Nope", "Thing"]), q_args(r)),
        _ => format!("subscription {{ {} {} }}", r.pick(&Q_TYPES), q_sel(r, 1)),
    }
}

pub fn gen_graphql_vars(r: &mut Rng) -> String {
    (*r.pick(&GRAPHQL_PARAM_QUERIES)).to_string()
}

const GRAPHQL_PARAM_QUERIES: [&str; 10] = [
    "query Q($p: Int) { person(age: $p) { name } }",
    "query Q($p: Int) { person(where: {age_gt: $p}) { name age } }",
    "query Q($p: String) { person(name: $p) { name } }",
    "query Q($p: [Int]) { person(where: {age_in: $p}) { name } }",
    "query Q($p: Int) { person(first: $p) { name } }",
    "query Q($p: Int) { person(skip: $p) { name } }",
    "query Q($p: Int = 1, $x: Int!) { person(id: $p) { name knows(first: $x) { name } } }",
    "{ person(age: $p) { name @include(if: $p) } }",
    "mutation M($p: Int, $name: String) { createPerson(name: $name, age: $p) { name age } }",
    "mutation M($p: Int) { updatePerson(id: $id, age: $p) { age } }",
];

pub fn graphql_nests() -> Vec<Nest> {
    let l = L_GRAPHQL;
    vec![
        nest(l, "selection", |d| wrap("", "{ a ", "", "}", "", d)),
        nest(l, "selection-person", |d| wrap("{ person ", "{ knows ", "{ name }", "}", " }", d)),
        nest(l, "list-value", |d| wrap("{ person(tags: ", "[", "1", "]", ") { name } }", d)),
        nest(l, "object-value", |d| wrap("{ person(where: ", "{a: ", "1", "}", ") { name } }", d)),
        nest(l, "type", |d| wrap("query Q($v: ", "[", "Int", "]", ") { person { name } }", d)),
        nest(l, "inline-fragment", |d| wrap("{ person ", "{ ... on Person ", "{ name }", "}", " }", d)),
        nest(l, "chain-fields", |d| chain("{ person { ", "name", " ", " } }", d)),
        nest(l, "chain-aliases", |d| chain("{ ", "a: person { name }", " ", " }", d)),
        nest(l, "chain-args", |d| chain("{ person(", "age: 1", ", ", ") { name } }", d)),
        nest(l, "chain-directives", |d| chain("{ person { name ", "@include(if: true)", " ", " } }", d)),
        nest(l, "chain-fragments", |d| chain("{ person { ...F } } ", "fragment F on Person { name }", " ", "", d)),
        nest(l, "chain-variables", |d| chain("query Q(", "$a: Int", ", ", ") { person { name } }", d)),
        nest(l, "chain-operations", |d| chain("", "query A { person { name } }", " ", "", d)),
        nest(l, "fragment-chain", |d| {
            let mut s = String::from("{ person { ...F0 } }");
            for i in 0..d {
                s.push_str(&format!(" fragment F{i} on Person {{ ...F{} }}", i + 1));
            }
            s.push_str(&format!(" fragment F{d} on Person {{ name }}"));
            s
        }),
        nest(l, "list-items", |d| chain("{ person(where: {age_in: [", "1", ",", "]}) { name } }", d)),
    ]
}

pub fn graphql_directed(v: &mut Vec<Input>) {
    let l = L_GRAPHQL;
    macro_rules! add { ($f:expr, $x:expr, $q:expr) => { v.push(Input::new(l, $x, $f, $q)) }; }
    // filter operators × value kinds × fields
    let vals = [
        "1", "0", "-1", "9223372036854775807", "-9223372036854775808", "9223372036854775808", "1.5", "1e400", "\"Alice\"", "\"\"", "true", "null", "ENUM", "[1, 2]", "[]", "[\"a\", 1, null]", "{a: 1}", "{}", "$v", "[[1]]",
    ];
    for f in ["name", "age", "score", "tags", "vec", "meta", "nope", "id"] {
        for s in Q_SUFFIX {
            for x in vals {
                add!("filter", 1, format!("{{ person(where: {{{f}{s}: {x}}}) {{ name }} }}"));
                add!("filter", 1, format!("{{ person({f}{s}: {x}) {{ name {f} }} }}"));
            }
        }
    }
    for x in vals.iter().chain(EXTREME_NUMS.iter()) {
        for t in [
            "{ person(first: {x}) { name } }", "{ person(limit: {x}) { name } }", "{ person(skip: {x}) { name } }", "{ person(offset: {x}) { name } }", "{ person(first: {x}, skip: {x}) { name } }",
            "{ person(id: {x}) { name } }", "{ person(orderBy: {x}) { name } }", "{ person(orderBy: {name: {x}}) { name } }", "{ person(where: {x}) { name } }", "{ person(filter: {x}) { name } }",
            "{ person { knows(first: {x}) { name } } }", "{ person { knows(where: {age_gt: {x}}) { name } } }", "mutation { createPerson(name: \"n\", age: {x}) { name age } }", "mutation { updatePerson(id: {x}, age: 1) { age } }",
            "mutation { updatePerson(id: 0, age: {x}) { age } }", "mutation { deletePerson(id: {x}) }", "mutation { deletePerson(age: {x}) }", "query Q($v: Int = {x}) { person(age: $v) { name } }",
            "{ person { name @include(if: {x}) } }", "{ person { name @skip(if: {x}) } }", "{ person @include(if: {x}) { name } }",
        ] {
            add!("numeric", 1, t.replace("{x}", x));
        }
    }
    for q in [
        "{ a(b: \"\"\"é\"\"\") { c } }", "{ a(b: \"é\") { c } }", "{ a { c } } # é", "{ é { c } }", "{ person(name: \"\"\"日本\n  Zoë\"\"\") { name } }",
        "{ person { name } }", "{ person { name age score active tags meta vec nope } }", "{ person { id } }", "{ person { __typename } }", "{ __schema { types { name } } }", "{ __type(name: \"Person\") { name } }", "{ person { knows { name knows { name knows { name } } } } }",
        "{ person { KNOWS { name } } }", "{ person { lives_in { name population } works_at { name } } }", "{ person { livesIn { name } } }", "{ city { person { name } } }", "{ person { name { x } } }", "{ person { knows } }", "{ person }", "{ person { } }", "{ }", "{",
        "}", "{ person { name }", "{ person { name } } }", "{ person { name } } { city { name } }", "query { person { name } } query { city { name } }", "query A { person { name } } query A { city { name } }", "query A { person { name } } query B { city { name } }",
        "query A { person { name } } mutation B { createX(a: 1) { a } }", "{ a: person { name } b: person { age } }", "{ a: person { name } a: city { name } }", "{ person { a: name a: age } }", "{ person { name name name } }", "{ person { n: name } }", "{ person { name: age } }",
        "{ person { ...F } } fragment F on Person { name }", "{ person { ...F } }", "{ person { ...F } } fragment F on Person { ...F }", "{ person { ...A } } fragment A on Person { ...B } fragment B on Person { ...A }", "{ ...F } fragment F on Query { person { name } }",
        "fragment F on Person { name }", "fragment on on on { on }", "fragment F on Person { name } fragment F on Person { age }", "{ person { ... on Person { name } } }", "{ person { ... on City { name } } }", "{ person { ... { name } } }", "{ person { ... @include(if: true) { name } } }",
        "{ person { ... } }", "{ person { ...on } }", "{ person { .. name } }", "{ person { . } }", "{ person { ....F } }", "query Q($v: Int) { person(age: $v) { name } }", "query Q($v: Int!) { person(age: $v) { name } }", "query Q($v: [Int!]!) { person(age_in: $v) { name } }",
        "query Q($v: Int = 30) { person(age: $v) { name } }", "query Q($v: Int = $v) { person(age: $v) { name } }", "query Q($v: Int = [1) { person { name } }", "query Q($v Int) { person { name } }", "query Q($v:) { person { name } }", "query Q($: Int) { person { name } }",
        "query Q() { person { name } }", "query Q( { person { name } }", "query Q($v: Int, $v: Int) { person { name } }", "query Q($v: [Int) { person { name } }", "query Q($v: Int!!) { person { name } }", "query Q($v: !) { person { name } }", "query ($v: Int) { person(age: $v) { name } }",
        "query Q @dir { person { name } }", "query Q($v: Int @dir) { person { name } }", "{ person(age: $undefined) { name } }", "{ person(age: $) { name } }", "{ person($v: 1) { name } }", "{ person(age: ) { name } }", "{ person(age) { name } }", "{ person(: 1) { name } }",
        "{ person(age: 1 { name } }", "{ person(age: 1,) { name } }", "{ person(,) { name } }", "{ person() { name } }", "{ person(age: 1 age: 2) { name } }", "{ person(age: 1, age: 2) { name } }", "{ person(where: {age_gt: 1, age_gt: 2}) { name } }",
        "{ person(where: {AND: [{age_gt: 1}, {age_lt: 50}]}) { name } }", "{ person(where: {OR: [{age_gt: 1}, {name: \"x\"}]}) { name } }", "{ person(where: {NOT: {age_gt: 1}}) { name } }", "{ person(where: {knows: {name: \"Bob\"}}) { name } }",
        "{ person(where: {_gt: 1}) { name } }", "{ person(where: {_: 1}) { name } }", "{ person(where: {age__gt: 1}) { name } }", "{ person(where: {age_gt_gt: 1}) { name } }", "{ person(where: {age_in: 1}) { name } }", "{ person(where: {name_contains: 1}) { name } }",
        "{ person(where: {name_starts_with: null}) { name } }", "{ person(where: {name_ends_with: [\"a\"]}) { name } }", "{ person(where: {tags_contains: \"a\"}) { name } }", "{ person(where: {tags_in: [[\"a\"]]}) { name } }", "{ person(where: {score: 0.0}) { score } }",
        "{ person(where: {score_ne: -0.0}) { score } }", "{ person(where: {score_gt: 1e308}) { score } }", "{ person(orderBy: {name: ASC}) { name } }", "{ person(orderBy: {score: DESC}) { score } }", "{ person(orderBy: {tags: ASC}) { tags } }", "{ person(orderBy: {meta: ASC}) { name } }",
        "{ person(orderBy: {vec: DESC}) { name } }", "{ person(orderBy: {nope: ASC}, first: 1) { name } }", "{ person(orderBy: [{name: ASC}, {age: DESC}]) { name } }", "{ person(orderBy: {}) { name } }", "{ person(orderBy: {name: NOPE}) { name } }", "{ person(orderBy: {name: \"ASC\"}) { name } }",
        "{ person(orderBy: \"name\") { name } }", "{ person(orderBy: name_ASC) { name } }", "{ person(first: 1, first: 2) { name } }", "{ person(first: 1, limit: 2) { name } }", "{ person(first: 0) { name } }", "{ person(skip: 100) { name } }", "{ person(first: -1, skip: -1) { name } }",
        "mutation { createPerson(name: \"X\") { name } }", "mutation { createPerson { name } }", "mutation { createPerson(name: \"X\") }", "mutation { createPerson(tags: [1, \"a\", null, [2]], meta: {a: {b: 1}}) { tags meta } }", "mutation { createPerson(name: null) { name } }",
        "mutation { createPerson(name: $v) { name } }", "mutation { createPerson(name: ENUM) { name } }", "mutation { create(name: \"X\") { name } }", "mutation { createperson(name: \"X\") { name } }", "mutation { createPERSON(name: \"X\") { name } }", "mutation { create_person(name: \"X\") { name } }",
        "mutation { createÉ(name: \"X\") { name } }", "mutation { updatePerson(id: 0, name: \"Y\") { name } }", "mutation { updatePerson(id: 999, name: \"Y\") { name } }", "mutation { updatePerson(id: -1, name: \"Y\") { name } }", "mutation { updatePerson(id: \"0\", name: \"Y\") { name } }",
        "mutation { updatePerson(id: 0) { name } }", "mutation { updatePerson(name: \"Y\") { name } }", "mutation { updatePerson(id: 0, id: 1, name: \"Y\") { name } }", "mutation { updatePerson(id: 0, age: null) { age } }", "mutation { updatePerson(where: {name: \"Alice\"}, age: 1) { age } }",
        "mutation { update(id: 0, a: 1) { a } }", "mutation { deletePerson(id: 0) }", "mutation { deletePerson(id: 0) { name } }", "mutation { deletePerson }", "mutation { deletePerson(name: \"Alice\") }", "mutation { deletePerson(where: {age_gt: 0}) }", "mutation { delete(id: 0) }",
        "mutation { deleteNope(id: 0) }", "mutation { a: createPerson(name: \"A\") { name } b: deletePerson(name: \"A\") }", "mutation { createPerson(name: \"A\") { name } createPerson(name: \"B\") { name } }", "mutation { doSomething(x: 1) { id } }", "mutation { person { name } }",
        "mutation M($n: String!) { createPerson(name: $n) { name } }", "mutation", "mutation {", "mutation { }", "subscription { person { name } }", "subscription", "query", "query Q", "query Q {", "schema { query: Q }", "type Person { name: String }", "extend type Person { x: Int }",
        "scalar Date", "enum E { A B }", "input I { a: Int }", "directive @d on FIELD", "interface I { a: Int }", "union U = A | B", "\"desc\" type T { a: Int }", "{ person { name } } # comment", "# only comment", "#", "{ person # c\n { name } }", "{ person, { name, age, }, }", ",,,",
        "{ person { name,,age } }", "{,}", "{ person(age: 1,,) { name } }", "{ person { \"name\" } }", "{ \"person\" { name } }", "{ person(\"age\": 1) { name } }", "{ person(age: \"unterminated) { name } }", "{ person(age: \"a\\", "{ person(age: \"\\u12\") { name } }",
        "{ person(age: \"\\uD800\") { name } }", "{ person(age: \"\\uZZZZ\") { name } }", "{ person(age: \"\\x\") { name } }", "{ person(age: \"\"\"block) { name } }", "{ person(age: \"\"\"a\"\"\") { name } }", "{ person(age: \"\"\"\"\"\") { name } }", "{ person(age: \"\"\"\\\"\"\"\"\"\") { name } }",
        "{ person(age: \"\"\"\n\n  a\n   b\n\"\"\") { name } }", "{ person(age: \"\"\"\"\"\"\") { name } }", "{ person(age: \"\n\") { name } }", "{ person(age: 1.) { name } }", "{ person(age: .5) { name } }", "{ person(age: 1e) { name } }", "{ person(age: 1e+) { name } }", "{ person(age: -) { name } }",
        "{ person(age: --1) { name } }", "{ person(age: +1) { name } }", "{ person(age: 01) { name } }", "{ person(age: -0) { name } }", "{ person(age: 0x10) { name } }", "{ person(age: 1a) { name } }", "{ person(age: 1.5.5) { name } }", "{ person(age: 1e5e5) { name } }", "{ person(age: -9223372036854775809) { name } }",
        "{ person(age: [1, [2, [3, {a: [4]}]]]) { name } }", "{ person(age: [1 2 3]) { name } }", "{ person(age: [,]) { name } }", "{ person(age: [) { name } }", "{ person(age: {a 1}) { name } }", "{ person(age: {a:}) { name } }", "{ person(age: {:1}) { name } }", "{ person(age: {a: 1 b: 2}) { name } }",
        "{ person(age: {a: 1,, b: 2}) { name } }", "{ person(age: {) { name } }", "{ person(age: true) { name } }", "{ person(active: true) { name } }", "{ person(active: 1) { name } }", "{ person(active: \"true\") { name } }", "{ person(active: TRUE) { name } }", "{ person(age: nullx) { name } }",
        "{ person @ { name } }", "{ person @include { name } }", "{ person @include() { name } }", "{ person @include(if) { name } }", "{ person @include(if: true) @skip(if: true) { name } }", "{ person @include(if: true) @include(if: false) { name } }", "{ person @nope(x: 1) { name } }",
        "{ person { name @include(if: $v) } }", "{ person { name @skip } }", "{ person { knows @skip(if: true) { name } } }", "{ person { ...F @skip(if: true) } } fragment F on Person { name }", "{ person { ...F } } fragment F on Person @skip(if: true) { name }",
        "{ true { false } }", "{ null { on } }", "{ query { mutation } }", "{ fragment { subscription } }", "{ on { on } }", "{ type { name } }", "{ person(on: 1, query: 2, fragment: 3) { name } }", "{ person { on } }", "{ _ { _ } }", "{ __ { __ } }", "{ _person { _name } }", "{ 1person { name } }",
        "{ person1 { name1 } }", "{ per-son { name } }", "{ per.son { name } }", "{ per son { name } }", "{ person:{ name } }", "{ : person { name } }", "{ a: : person { name } }", "{ a: b: person { name } }", "{ person { name! } }", "{ person { name? } }", "{ person { name = 1 } }", "{ person | { name } }",
        "{ person & { name } }", "{ person ! }", "{ $person { name } }", "{ @person { name } }", "{ person { [name] } }", "{ person [ name ] }", "( person { name } )", "[ { person { name } } ]", "\u{feff}{ person { name } }", "{ person\u{feff} { name } }", "{\tperson\r\n{\rname\n}\n}",
    ] {
        add!("semantic", 1, q.to_string());
        add!("semantic", 0, q.to_string());
    }
    for q in ["{ k { knows { knows { knows { id } } } } }", "{ k { knows { knows { knows { knows { id } } } } } }", "{ k(where: {id_lt: 3}) { knows(first: 2) { knows(orderBy: {id: DESC}) { id } } } }", "{ person { knows { knows { knows { knows { knows { id } } } } } } }"] {
        add!("clique", 2, q.to_string());
    }
    let np = crate::vals::pool().len();
    for q in GRAPHQL_PARAM_QUERIES {
        for k in 0..np {
            if k % 2 == 1 || q.contains("age_gt") {
                v.push(Input::new(l, 1, "params-pool", q).par(format!("p{k}")));
            }
        }
        v.push(Input::new(l, 1, "params-pool", q).par("all"));
        v.push(Input::new(l, 0, "params-pool", q).par("none"));
    }
}
