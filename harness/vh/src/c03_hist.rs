//! History machinery shared by C03 and C04 (manager level): operations, executor that drives
//! the real `TransactionManager` and records every call at the API boundary with one logical
//! clock, the per-commit oracle (computed from the recorded history only), the gc-independence
//! comparison, the dependency-graph oracle, and the generators (exhaustive families, random,
//! named anomaly shapes, mutation).
#![allow(dead_code)]

use crate::report::Report;
use crate::rng::Rng;
use grafeo_common::types::{EdgeId, NodeId, TxId};
use grafeo_common::utils::error::{Error, TransactionError};
use grafeo_engine::transaction::{EntityId, IsolationLevel, TransactionManager};
use serde_json::{Value, json};
use std::collections::{BTreeMap, HashSet};

pub const MAXT: usize = 8;

#[derive(Clone, Copy, Debug, PartialEq, Eq, Hash)]
pub enum Lvl {
    Rc,
    Si,
    Ser,
}

impl Lvl {
    pub fn iso(self) -> IsolationLevel {
        match self {
            Lvl::Rc => IsolationLevel::ReadCommitted,
            Lvl::Si => IsolationLevel::SnapshotIsolation,
            Lvl::Ser => IsolationLevel::Serializable,
        }
    }
    pub fn name(self) -> &'static str {
        match self {
            Lvl::Rc => "rc",
            Lvl::Si => "si",
            Lvl::Ser => "ser",
        }
    }
    pub fn from_index(i: usize) -> Lvl {
        [Lvl::Rc, Lvl::Si, Lvl::Ser][i % 3]
    }
}

/// One step of a history. Transactions are small indices, entities are indices into an
/// entity map (so the same shape can be run on node ids, edge ids or a mix).
#[derive(Clone, Copy, Debug, PartialEq, Eq, Hash)]
pub enum Op {
    Begin(u8, Lvl),
    Write(u8, u8),
    Read(u8, u8),
    Commit(u8),
    Abort(u8),
    Gc,
}

/// Entity maps: index -> real entity. Node(7) and Edge(7) share the raw id on purpose (they are
/// different entities and must never conflict with each other).
pub const N_EMAPS: usize = 3;
pub fn entity(emap: usize, k: u8) -> EntityId {
    let k = u64::from(k);
    match emap % N_EMAPS {
        0 => {
            if k % 2 == 0 {
                EntityId::Node(NodeId::new(7 + k / 2))
            } else {
                EntityId::Edge(EdgeId::new(7 + k / 2))
            }
        }
        1 => EntityId::Node(NodeId::new(100 + k)),
        _ => EntityId::Edge(EdgeId::new(3 + k)),
    }
}
pub fn entity_name(emap: usize, k: u8) -> String {
    match entity(emap, k) {
        EntityId::Node(n) => format!("n{}", n.as_u64()),
        EntityId::Edge(e) => format!("e{}", e.as_u64()),
    }
}
pub fn emap_kind(emap: usize) -> &'static str {
    match emap % N_EMAPS {
        0 => "node+edge",
        1 => "node",
        _ => "edge",
    }
}

#[derive(Clone, Copy, Debug, PartialEq, Eq)]
pub enum GcMode {
    Stripped,
    AsGen,
    Every,
}
impl GcMode {
    pub fn name(self) -> &'static str {
        match self {
            GcMode::Stripped => "gc_stripped",
            GcMode::AsGen => "gc_as_generated",
            GcMode::Every => "gc_after_every_op",
        }
    }
}

#[derive(Clone, Debug, PartialEq, Eq)]
pub enum Dec {
    Ok(u64),
    WriteConflict,
    SerFail,
    Other(String),
}
impl Dec {
    pub fn kind(&self) -> &'static str {
        match self {
            Dec::Ok(_) => "ok",
            Dec::WriteConflict => "write_conflict",
            Dec::SerFail => "serialization_failure",
            Dec::Other(_) => "other_error",
        }
    }
    pub fn accepted(&self) -> bool {
        matches!(self, Dec::Ok(_))
    }
    pub fn from_result(r: &Result<grafeo_common::types::EpochId, Error>) -> Dec {
        match r {
            Ok(e) => Dec::Ok(e.as_u64()),
            Err(Error::Transaction(TransactionError::WriteConflict(_))) => Dec::WriteConflict,
            Err(Error::Transaction(TransactionError::SerializationFailure(_))) => Dec::SerFail,
            Err(e) => Dec::Other(e.to_string()),
        }
    }
}

/// One commit call as observed at the API boundary.
#[derive(Clone, Debug)]
pub struct Attempt {
    pub tx: u8,
    /// index of the Commit op among the non-gc ops of the history (aligns the three gc modes)
    pub pos: u32,
    /// logical clock of the call (counts every API call including gc)
    pub clock: u32,
    /// write / read sets registered by the transaction when it asked to commit (bit masks)
    pub w: u8,
    pub r: u8,
    pub dec: Dec,
}

#[derive(Clone, Copy, Debug)]
pub struct TxRec {
    pub begun: Option<u32>,
    pub lvl: Lvl,
    pub w: u8,
    pub r: u8,
    /// harness view: 0 not begun, 1 active, 2 committed, 3 aborted
    pub state: u8,
    pub start_epoch: u64,
}

pub struct Run {
    pub tx: [TxRec; MAXT],
    pub attempts: Vec<Attempt>,
    pub gcs: Vec<u32>,
    /// API contract anomalies (signature tail, description)
    pub anomalies: Vec<(&'static str, String)>,
    pub skipped_ops: u32,
    pub gc_removed: u64,
}

#[derive(Clone, Copy, Debug)]
pub struct Opts {
    pub emap: usize,
    /// a client that receives a refusal immediately calls abort (true) or walks away leaving
    /// the transaction open (false; later ops of the history on it are still applied)
    pub abort_on_refusal: bool,
    /// ops addressed to a finished transaction are really issued and must return an error
    pub poke_finished: bool,
}

impl Default for Opts {
    fn default() -> Self {
        Opts { emap: 0, abort_on_refusal: true, poke_finished: false }
    }
}

/// Wrapper hook for sensitivity experiments (identity in the committed version).
#[inline]
fn level_for_engine(l: Lvl) -> IsolationLevel {
    l.iso()
}

/// Drive the real manager through `h` in the given gc mode.
pub fn execute(h: &[Op], mode: GcMode, o: Opts) -> Run {
    let mgr = TransactionManager::new();
    let blank = TxRec { begun: None, lvl: Lvl::Si, w: 0, r: 0, state: 0, start_epoch: 0 };
    let mut run = Run { tx: [blank; MAXT], attempts: Vec::new(), gcs: Vec::new(), anomalies: Vec::new(), skipped_ops: 0, gc_removed: 0 };
    let mut ids: [Option<TxId>; MAXT] = [None; MAXT];
    let mut clock: u32 = 0;
    let mut pos: u32 = 0;
    let mut seen_ids: Vec<u64> = Vec::new();
    for op in h {
        if *op == Op::Gc {
            if mode == GcMode::AsGen {
                clock += 1;
                run.gc_removed += mgr.gc() as u64;
                run.gcs.push(clock);
            }
            continue;
        }
        let my_pos = pos;
        pos += 1;
        match *op {
            Op::Begin(t, l) => {
                let t = t as usize;
                if run.tx[t].state != 0 {
                    run.skipped_ops += 1;
                } else {
                    clock += 1;
                    let id = mgr.begin_with_isolation(level_for_engine(l));
                    if seen_ids.contains(&id.as_u64()) {
                        run.anomalies.push(("begin_returned_duplicate_tx_id", format!("{id:?}")));
                    }
                    seen_ids.push(id.as_u64());
                    ids[t] = Some(id);
                    let se = mgr.start_epoch(id).map(|e| e.as_u64());
                    if se.is_none() {
                        run.anomalies.push(("start_epoch_unknown_after_begin", format!("{id:?}")));
                    }
                    if mgr.isolation_level(id) != Some(l.iso()) {
                        run.anomalies.push(("isolation_level_not_kept", format!("{id:?} asked {:?}", l.iso())));
                    }
                    run.tx[t] = TxRec { begun: Some(clock), lvl: l, w: 0, r: 0, state: 1, start_epoch: se.unwrap_or(0) };
                }
            }
            Op::Write(t, e) | Op::Read(t, e) => {
                let is_w = matches!(op, Op::Write(..));
                let ti = t as usize;
                let Some(id) = ids[ti] else {
                    run.skipped_ops += 1;
                    continue;
                };
                let ent = entity(o.emap, e);
                if run.tx[ti].state == 1 {
                    clock += 1;
                    let r = if is_w { mgr.record_write(id, ent) } else { mgr.record_read(id, ent) };
                    if let Err(err) = r {
                        run.anomalies.push((if is_w { "record_write_failed_on_active_tx" } else { "record_read_failed_on_active_tx" }, err.to_string()));
                    } else if is_w {
                        run.tx[ti].w |= 1 << e;
                    } else {
                        run.tx[ti].r |= 1 << e;
                    }
                } else if o.poke_finished {
                    clock += 1;
                    let r = if is_w { mgr.record_write(id, ent) } else { mgr.record_read(id, ent) };
                    if r.is_ok() {
                        run.anomalies.push((if is_w { "record_write_accepted_on_finished_tx" } else { "record_read_accepted_on_finished_tx" }, format!("tx {t}")));
                    }
                } else {
                    run.skipped_ops += 1;
                }
            }
            Op::Commit(t) => {
                let ti = t as usize;
                let Some(id) = ids[ti] else {
                    run.skipped_ops += 1;
                    continue;
                };
                if run.tx[ti].state == 1 {
                    clock += 1;
                    let r = mgr.commit(id);
                    let dec = Dec::from_result(&r);
                    run.attempts.push(Attempt { tx: t, pos: my_pos, clock, w: run.tx[ti].w, r: run.tx[ti].r, dec: dec.clone() });
                    if dec.accepted() {
                        run.tx[ti].state = 2;
                    } else if o.abort_on_refusal {
                        clock += 1;
                        if let Err(err) = mgr.abort(id) {
                            run.anomalies.push(("abort_failed_after_refused_commit", err.to_string()));
                        }
                        run.tx[ti].state = 3;
                    }
                } else if o.poke_finished {
                    clock += 1;
                    if mgr.commit(id).is_ok() {
                        run.anomalies.push(("commit_accepted_on_finished_tx", format!("tx {t}")));
                    }
                } else {
                    run.skipped_ops += 1;
                }
            }
            Op::Abort(t) => {
                let ti = t as usize;
                let Some(id) = ids[ti] else {
                    run.skipped_ops += 1;
                    continue;
                };
                if run.tx[ti].state == 1 {
                    clock += 1;
                    if let Err(err) = mgr.abort(id) {
                        run.anomalies.push(("abort_failed_on_active_tx", err.to_string()));
                    }
                    run.tx[ti].state = 3;
                } else if o.poke_finished {
                    clock += 1;
                    if mgr.abort(id).is_ok() {
                        run.anomalies.push(("abort_accepted_on_finished_tx", format!("tx {t}")));
                    }
                } else {
                    run.skipped_ops += 1;
                }
            }
            Op::Gc => unreachable!(),
        }
        if mode == GcMode::Every {
            clock += 1;
            run.gc_removed += mgr.gc() as u64;
            run.gcs.push(clock);
        }
    }
    run
}

// ---------------------------------------------------------------------------------------------
// Oracle
// ---------------------------------------------------------------------------------------------

/// What the statements of C03/C04 demand for one commit call, given the history so far and the
/// *observed* fate of the earlier commits.
#[derive(Clone, Copy, Debug, Default)]
pub struct Facts {
    /// ∃ committed U, committed after T began, W(U) ∩ W(T) ≠ ∅
    pub ww_over: bool,
    /// T Serializable and ∃ committed U, committed after T began, W(U) ∩ R(T) ≠ ∅
    pub rw_over: bool,
    /// ∃ committed U, committed BEFORE T began, W(U) ∩ W(T) ≠ ∅ (clock of the latest such commit)
    pub ww_non: Option<u32>,
    pub rw_non: Option<u32>,
    /// clock of the commit of the latest overlapping conflicting writer
    pub ww_over_at: Option<u32>,
    pub rw_over_at: Option<u32>,
}

pub fn facts(run: &Run, idx: usize) -> Facts {
    let a = &run.attempts[idx];
    let t = &run.tx[a.tx as usize];
    let tb = t.begun.unwrap_or(0);
    let mut f = Facts::default();
    for b in &run.attempts[..idx] {
        if !b.dec.accepted() || b.tx == a.tx {
            continue;
        }
        let over = b.clock > tb;
        if b.w & a.w != 0 {
            if over {
                f.ww_over = true;
                f.ww_over_at = Some(b.clock);
            } else {
                f.ww_non = Some(b.clock);
            }
        }
        if b.w & a.r != 0 {
            if over {
                if t.lvl == Lvl::Ser {
                    f.rw_over = true;
                    f.rw_over_at = Some(b.clock);
                }
            } else {
                f.rw_non = Some(b.clock);
            }
        }
    }
    f
}

/// "ok" | "refuse"
pub fn expected(a: &Attempt, f: &Facts) -> &'static str {
    if f.ww_over {
        "refuse"
    } else if f.rw_over && a.w != 0 {
        "refuse"
    } else {
        // includes: read-only transactions (second sentence of C04, read literally) and
        // transactions whose only conflicting writers committed before they began
        "ok"
    }
}

fn gc_between(run: &Run, lo: u32, hi: u32) -> bool {
    run.gcs.iter().any(|g| *g > lo && *g < hi)
}

/// gc class of a refusal blamed on a writer that committed (clock `cu`) before T began.
fn gc_class_non_overlap(run: &Run, cu: u32, tb: u32, now: u32) -> &'static str {
    if gc_between(run, cu, tb) {
        "gc_before_begin"
    } else if gc_between(run, tb, now) {
        "gc_after_begin"
    } else {
        "no_gc"
    }
}

/// Deviation of one run from the per-commit rule. Returns (attempt index, signature).
pub fn judge_attempt(p: &str, run: &Run, idx: usize) -> Option<String> {
    let a = &run.attempts[idx];
    let t = &run.tx[a.tx as usize];
    let tb = t.begun.unwrap_or(0);
    let f = facts(run, idx);
    let exp = expected(a, &f);
    match (&a.dec, exp) {
        (Dec::Ok(_), "ok") => None,
        (Dec::Ok(_), _) => {
            if f.ww_over {
                let g = if gc_between(run, f.ww_over_at.unwrap(), a.clock) { "gc" } else { "no_gc" };
                Some(format!("{p}:manager|overlap|{g}|both_commit"))
            } else {
                let g = if gc_between(run, f.rw_over_at.unwrap(), a.clock) { "gc" } else { "no_gc" };
                Some(format!("{p}:manager|rw_overlap|{g}|committed"))
            }
        }
        (Dec::Other(_), _) => Some(format!("{p}:manager|commit_error|other")),
        (d, "refuse") => {
            // rightly refused: the error kind must name the reason
            let kind_ok = match d {
                Dec::WriteConflict => f.ww_over,
                Dec::SerFail => f.rw_over,
                _ => false,
            };
            if kind_ok {
                None
            } else if *d == Dec::WriteConflict {
                // refused as write conflict although the only real reason is the read
                match f.ww_non {
                    Some(cu) => Some(format!("{p}:manager|non_overlap|{}|refused_wrong_reason", gc_class_non_overlap(run, cu, tb, a.clock))),
                    None => Some(format!("{p}:manager|rw_overlap|reported_as_write_conflict")),
                }
            } else {
                Some(format!("{p}:manager|overlap|reported_as_serialization_failure"))
            }
        }
        (Dec::WriteConflict, _) => match f.ww_non {
            Some(cu) => Some(format!("{p}:manager|non_overlap|{}|refused", gc_class_non_overlap(run, cu, tb, a.clock))),
            None => Some(format!("{p}:manager|no_writer|refused")),
        },
        (Dec::SerFail, _) => {
            if t.lvl != Lvl::Ser {
                Some(format!("{p}:manager|serialization_failure_below_serializable"))
            } else if a.w == 0 && f.rw_over {
                Some(format!("{p}:readonly_refused"))
            } else if a.w == 0 {
                Some(format!("{p}:readonly_refused|no_overlapping_writer"))
            } else {
                match f.rw_non {
                    Some(cu) => Some(format!("{p}:manager|non_overlap_read|{}|refused", gc_class_non_overlap(run, cu, tb, a.clock))),
                    None => Some(format!("{p}:manager|no_writer_of_read|refused")),
                }
            }
        }
    }
}

/// (d) commit epochs unique and strictly increasing in commit order; start epoch sane.
pub fn judge_epochs(p: &str, run: &Run) -> Option<String> {
    let mut last: Option<u64> = None;
    for a in &run.attempts {
        if let Dec::Ok(e) = a.dec {
            if let Some(l) = last {
                if e <= l {
                    return Some(format!("{p}:manager|commit_epoch_not_increasing"));
                }
            }
            if e <= run.tx[a.tx as usize].start_epoch {
                return Some(format!("{p}:manager|commit_epoch_not_after_start_epoch"));
            }
            last = Some(e);
        }
    }
    None
}

pub fn decision_vector(run: &Run) -> Vec<(u32, u8, &'static str)> {
    run.attempts.iter().map(|a| (a.pos, a.tx, a.dec.kind())).collect()
}

// ---------------------------------------------------------------------------------------------
// Direct serialization graph of the committed transactions
// ---------------------------------------------------------------------------------------------

#[derive(Clone, Copy, Debug, PartialEq, Eq, PartialOrd, Ord)]
pub enum EdgeKind {
    Ww,
    Wr,
    Rw,
}

pub struct Dsg {
    /// committed transactions in commit order (tx index)
    pub nodes: Vec<u8>,
    pub edges: Vec<(u8, u8, EdgeKind, u8)>,
}

/// Committed transaction view for the DSG: begin clock, commit clock, read/write masks.
pub fn dsg(run: &Run, nent: u8) -> Dsg {
    struct C {
        tx: u8,
        b: u32,
        c: u32,
        w: u8,
        r: u8,
    }
    let cs: Vec<C> = run
        .attempts
        .iter()
        .filter(|a| a.dec.accepted())
        .map(|a| C { tx: a.tx, b: run.tx[a.tx as usize].begun.unwrap_or(0), c: a.clock, w: a.w, r: a.r })
        .collect();
    let mut edges = Vec::new();
    for e in 0..nent {
        let bit = 1u8 << e;
        // ww: consecutive committed writers of e in commit order
        let writers: Vec<&C> = cs.iter().filter(|c| c.w & bit != 0).collect();
        for w in writers.windows(2) {
            edges.push((w[0].tx, w[1].tx, EdgeKind::Ww, e));
        }
        for t in cs.iter().filter(|c| c.r & bit != 0) {
            // wr: last committed writer at T's start
            if let Some(w) = writers.iter().filter(|w| w.c < t.b && w.tx != t.tx).next_back() {
                edges.push((w.tx, t.tx, EdgeKind::Wr, e));
            }
            // rw: read (from the snapshot at T's start) then overwritten by a transaction that
            // committed after T's start
            for w in writers.iter().filter(|w| w.c > t.b && w.tx != t.tx) {
                edges.push((t.tx, w.tx, EdgeKind::Rw, e));
            }
        }
    }
    Dsg { nodes: cs.iter().map(|c| c.tx).collect(), edges }
}

/// A shortest cycle (list of edges) if the graph has one.
pub fn find_cycle(g: &Dsg) -> Option<Vec<(u8, u8, EdgeKind, u8)>> {
    let mut best: Option<Vec<(u8, u8, EdgeKind, u8)>> = None;
    for &s in &g.nodes {
        // BFS from s back to s
        let mut prev: BTreeMap<u8, (u8, u8, EdgeKind, u8)> = BTreeMap::new();
        let mut queue = std::collections::VecDeque::new();
        queue.push_back(s);
        let mut found = None;
        'bfs: while let Some(u) = queue.pop_front() {
            for e in g.edges.iter().filter(|e| e.0 == u) {
                if e.1 == s {
                    found = Some(*e);
                    break 'bfs;
                }
                if !prev.contains_key(&e.1) && e.1 != s {
                    prev.insert(e.1, *e);
                    queue.push_back(e.1);
                }
            }
        }
        if let Some(last) = found {
            let mut path = vec![last];
            let mut cur = last.0;
            while cur != s {
                let e = prev[&cur];
                path.push(e);
                cur = e.0;
            }
            path.reverse();
            if best.as_ref().is_none_or(|b| path.len() < b.len()) {
                best = Some(path);
            }
        }
    }
    best
}

/// Class of a cycle: the textbook names where they apply, otherwise length + edge kinds.
pub fn cycle_class(run: &Run, cyc: &[(u8, u8, EdgeKind, u8)]) -> String {
    let txs: Vec<u8> = cyc.iter().map(|e| e.0).collect();
    let wmask = |t: u8| run.attempts.iter().find(|a| a.tx == t && a.dec.accepted()).map_or(0, |a| a.w);
    let any_readonly = txs.iter().any(|t| wmask(*t) == 0);
    let all_rw = cyc.iter().all(|e| e.2 == EdgeKind::Rw);
    if any_readonly {
        return "read_only_anomaly".into();
    }
    if cyc.len() == 2 {
        let shared = wmask(txs[0]) & wmask(txs[1]);
        if shared != 0 {
            return "lost_update".into();
        }
        if all_rw {
            return "write_skew".into();
        }
    }
    let mut kinds: Vec<&str> = cyc
        .iter()
        .map(|e| match e.2 {
            EdgeKind::Ww => "ww",
            EdgeKind::Wr => "wr",
            EdgeKind::Rw => "rw",
        })
        .collect();
    kinds.sort_unstable();
    kinds.dedup();
    format!("len{}|{}", cyc.len().min(4), kinds.join("+"))
}

// ---------------------------------------------------------------------------------------------
// Rendering
// ---------------------------------------------------------------------------------------------

pub fn render(h: &[Op], emap: usize) -> String {
    let mut s = String::new();
    for op in h {
        if !s.is_empty() {
            s.push(' ');
        }
        match op {
            Op::Begin(t, l) => s.push_str(&format!("B{t}:{}", l.name())),
            Op::Write(t, e) => s.push_str(&format!("W{t}({})", entity_name(emap, *e))),
            Op::Read(t, e) => s.push_str(&format!("R{t}({})", entity_name(emap, *e))),
            Op::Commit(t) => s.push_str(&format!("C{t}")),
            Op::Abort(t) => s.push_str(&format!("A{t}")),
            Op::Gc => s.push_str("gc"),
        }
    }
    s
}

pub fn render_decisions(run: &Run) -> String {
    run.attempts
        .iter()
        .map(|a| match &a.dec {
            Dec::Ok(e) => format!("C{}=ok@{}", a.tx, e),
            d => format!("C{}={}", a.tx, d.kind()),
        })
        .collect::<Vec<_>>()
        .join(" ")
}

pub fn hash_history(h: &[Op]) -> u64 {
    let mut x: u64 = 0xcbf2_9ce4_8422_2325;
    for op in h {
        let v: u64 = match *op {
            Op::Begin(t, l) => 1 + 8 * (u64::from(t) + 16 * l as u64),
            Op::Write(t, e) => 2 + 8 * (u64::from(t) + 16 * u64::from(e)),
            Op::Read(t, e) => 3 + 8 * (u64::from(t) + 16 * u64::from(e)),
            Op::Commit(t) => 4 + 8 * u64::from(t),
            Op::Abort(t) => 5 + 8 * u64::from(t),
            Op::Gc => 6,
        };
        x ^= v;
        x = x.wrapping_mul(0x0000_0100_0000_01B3);
    }
    x
}

// ---------------------------------------------------------------------------------------------
// Accumulator (one per worker thread; merged into the Report)
// ---------------------------------------------------------------------------------------------

#[derive(Default)]
pub struct Acc {
    pub evals: u64,
    pub nontrivial: HashSet<u64>,
    pub counters: BTreeMap<String, u64>,
    pub devs: BTreeMap<String, (u64, Value)>,
    pub samples: Vec<Value>,
}

impl Acc {
    pub fn count(&mut self, k: &str, n: u64) {
        if let Some(v) = self.counters.get_mut(k) {
            *v += n;
        } else {
            self.counters.insert(k.to_string(), n);
        }
    }
    pub fn dev(&mut self, sig: &str, detail: impl FnOnce() -> Value) {
        if let Some(e) = self.devs.get_mut(sig) {
            e.0 += 1;
        } else {
            self.devs.insert(sig.to_string(), (1, detail()));
        }
    }
    pub fn merge(&mut self, o: Acc) {
        self.evals += o.evals;
        self.nontrivial.extend(o.nontrivial);
        for (k, v) in o.counters {
            self.count(&k, v);
        }
        for (k, (n, d)) in o.devs {
            if let Some(e) = self.devs.get_mut(&k) {
                e.0 += n;
            } else {
                self.devs.insert(k, (n, d));
            }
        }
        for s in o.samples {
            if self.samples.len() < 8 {
                self.samples.push(s);
            }
        }
    }
    pub fn into_report(self, rep: &mut Report) {
        rep.evals(self.evals);
        for h in self.nontrivial {
            rep.nontrivial(h);
        }
        for (k, v) in self.counters {
            rep.count(&k, v);
        }
        for (sig, (n, d)) in self.devs {
            rep.count(&format!("deviation[{sig}]"), n);
            for _ in 0..n.min(50) {
                rep.deviation(&sig, d.clone());
            }
        }
        for s in self.samples {
            rep.sample(s);
        }
    }
}

/// What a history exercises (for the non-triviality rule and the evidence counters).
pub struct Shape {
    pub overlapping_writer_pair: bool,
    pub non_overlapping_writer_pair: bool,
    pub pinned_reader: bool,
    pub rw_pair: bool,
}

pub fn shape(run: &Run) -> Shape {
    let mut s = Shape { overlapping_writer_pair: false, non_overlapping_writer_pair: false, pinned_reader: false, rw_pair: false };
    let at = &run.attempts;
    for i in 0..at.len() {
        let ti = &run.tx[at[i].tx as usize];
        let tb = ti.begun.unwrap_or(0);
        for j in 0..i {
            if at[j].tx == at[i].tx {
                continue;
            }
            // j asked to commit before i did
            if at[j].w & at[i].w != 0 {
                if at[j].clock > tb {
                    s.overlapping_writer_pair = true;
                } else {
                    s.non_overlapping_writer_pair = true;
                }
            }
            if at[j].w & at[i].r != 0 && at[j].clock > tb {
                s.rw_pair = true;
            }
        }
    }
    // a transaction without writes that spans somebody else's whole lifetime
    for (k, t) in run.tx.iter().enumerate() {
        if let (Some(b), 0) = (t.begun, t.w) {
            let end = at.iter().find(|a| a.tx as usize == k).map_or(u32::MAX, |a| a.clock);
            if at.iter().any(|a| a.tx as usize != k && a.clock > b && a.clock < end && a.dec.accepted()) {
                s.pinned_reader = true;
            }
        }
    }
    s
}

/// Run one history in the gc modes and judge it. `p` = "c03" | "c04".
/// Modes: gc stripped (baseline); gc at the generated points (if the history has any); gc after
/// every operation; and, with `sweep`, one extra run per position with a single gc inserted there.
/// `check_dsg`: demand acyclicity (caller passes true only for all-Serializable histories).
#[allow(clippy::too_many_arguments)]
pub fn check_history(p: &str, h: &[Op], o: Opts, nent: u8, check_dsg: bool, family: &str, sweep: bool, acc: &mut Acc) {
    let has_gc = h.iter().any(|x| *x == Op::Gc);
    let base = judge_run(p, h, GcMode::Stripped, o, nent, check_dsg, family, acc);
    let bdv = decision_vector(&base);
    {
        let sh = shape(&base);
        let nontrivial = if p == "c03" { sh.overlapping_writer_pair } else { sh.overlapping_writer_pair || sh.rw_pair };
        if nontrivial {
            acc.nontrivial.insert(hash_history(h) ^ ((o.emap as u64) << 60) ^ ((o.abort_on_refusal as u64) << 59));
            acc.count("histories.nontrivial", 1);
            if acc.samples.len() < 3 {
                acc.samples.push(json!({"family": family, "history": render(h, o.emap), "decisions_gc_stripped": render_decisions(&base)}));
            }
        }
        if sh.non_overlapping_writer_pair {
            acc.count("histories.with_non_overlapping_writer_pair", 1);
        }
        if sh.pinned_reader {
            acc.count("histories.with_reader_spanning_a_commit", 1);
        }
        if sh.rw_pair {
            acc.count("histories.with_read_overwritten_by_overlapping_commit", 1);
        }
    }
    let compare = |hv: &[Op], mode: GcMode, acc: &mut Acc| {
        let run = judge_run(p, hv, mode, o, nent, check_dsg, family, acc);
        let dv = decision_vector(&run);
        if bdv != dv {
            // first differing commit: the earlier decisions agree, so exactly one side deviates
            // from the per-commit rule there
            let k = bdv.iter().zip(dv.iter()).position(|(x, y)| x != y).unwrap_or(bdv.len().min(dv.len()));
            let local = if k < run.attempts.len() && k < base.attempts.len() {
                judge_attempt(p, &run, k).or_else(|| judge_attempt(p, &base, k))
            } else {
                None
            };
            let class = match &local {
                Some(s) if s.contains("|non_overlap") => "spurious_refusal_of_non_overlapping_writer",
                Some(s) if s.contains("both_commit") => "missed_write_conflict",
                Some(s) if s.contains("rw_overlap") => "missed_read_write_conflict",
                Some(s) if s.contains("readonly_refused") => "readonly_refusal",
                Some(_) => "other_deviation",
                None => "length_or_unexplained",
            };
            acc.dev(&format!("{p}:manager|gc_changes_decision|{class}"), || {
                json!({"family": family, "history": render(hv, o.emap), "abort_on_refusal": o.abort_on_refusal,
                       "decisions_gc_stripped": render_decisions(&base), "gc_mode_b": mode.name(), "decisions_b": render_decisions(&run)})
            });
        }
    };
    if has_gc {
        compare(h, GcMode::AsGen, acc);
    }
    compare(h, GcMode::Every, acc);
    if sweep {
        let stripped: Vec<Op> = h.iter().copied().filter(|x| *x != Op::Gc).collect();
        with_single_gc(&stripped, &mut |hv| compare(hv, GcMode::AsGen, acc));
    }
    acc.count(&format!("histories.{family}"), 1);
}

#[allow(clippy::too_many_arguments)]
fn judge_run(p: &str, h: &[Op], mode: GcMode, o: Opts, nent: u8, check_dsg: bool, family: &str, acc: &mut Acc) -> Run {
    let run = execute(h, mode, o);
    acc.evals += 1;
    acc.count(mode.name(), 1);
    acc.count("commit_calls", run.attempts.len() as u64);
    acc.count("gc_calls", run.gcs.len() as u64);
    acc.count("gc_removed_entries", run.gc_removed);
    let detail = |run: &Run, why: String| {
        json!({"family": family, "history": render(h, o.emap), "gc_mode": mode.name(), "abort_on_refusal": o.abort_on_refusal,
               "observed": render_decisions(run), "why": why})
    };
    for (tail, why) in &run.anomalies {
        acc.dev(&format!("{p}:manager|api|{tail}"), || detail(&run, why.clone()));
    }
    for i in 0..run.attempts.len() {
        let a = &run.attempts[i];
        acc.count(match a.dec {
            Dec::Ok(_) => "decision.ok",
            Dec::WriteConflict => "decision.write_conflict",
            Dec::SerFail => "decision.serialization_failure",
            Dec::Other(_) => "decision.other_error",
        }, 1);
        if let Some(sig) = judge_attempt(p, &run, i) {
            let f = facts(&run, i);
            acc.dev(&sig, || detail(&run, format!("commit #{} (tx {}) observed {} expected {}; {:?}", i, a.tx, a.dec.kind(), expected(a, &f), f)));
        }
    }
    if let Some(sig) = judge_epochs(p, &run) {
        acc.dev(&sig, || detail(&run, "commit epochs".into()));
    }
    if check_dsg {
        let g = dsg(&run, nent);
        acc.count("dsg.graphs", 1);
        acc.count("dsg.edges", g.edges.len() as u64);
        if let Some(cyc) = find_cycle(&g) {
            let class = cycle_class(&run, &cyc);
            acc.dev(&format!("{p}:dsg_cycle|{class}"), || {
                detail(&run, format!("cycle {:?}", cyc.iter().map(|e| format!("T{}-{:?}({})->T{}", e.0, e.2, entity_name(o.emap, e.3), e.1)).collect::<Vec<_>>()))
            });
        }
    }
    run
}

// ---------------------------------------------------------------------------------------------
// Generators
// ---------------------------------------------------------------------------------------------

/// All interleavings of the per-transaction programs `progs` (program i belongs to tx i) in which
/// transaction i+1 does not begin before transaction i (canonical labelling).
pub fn interleavings(progs: &[Vec<Op>], f: &mut dyn FnMut(&[Op])) {
    fn rec(progs: &[Vec<Op>], at: &mut Vec<usize>, cur: &mut Vec<Op>, f: &mut dyn FnMut(&[Op])) {
        let mut done = true;
        for i in 0..progs.len() {
            if at[i] < progs[i].len() {
                done = false;
                if at[i] == 0 && i > 0 && at[i - 1] == 0 {
                    continue;
                }
                cur.push(progs[i][at[i]]);
                at[i] += 1;
                rec(progs, at, cur, f);
                at[i] -= 1;
                cur.pop();
            }
        }
        if done {
            f(cur);
        }
    }
    let mut at = vec![0; progs.len()];
    let mut cur = Vec::new();
    rec(progs, &mut at, &mut cur, f);
}

/// Like `interleavings`, but each program is a list of blocks that stay contiguous.
pub fn interleavings_blocks(progs: &[Vec<Vec<Op>>], f: &mut dyn FnMut(&[Op])) {
    fn rec(progs: &[Vec<Vec<Op>>], at: &mut Vec<usize>, cur: &mut Vec<Op>, f: &mut dyn FnMut(&[Op])) {
        let mut done = true;
        for i in 0..progs.len() {
            if at[i] < progs[i].len() {
                done = false;
                if at[i] == 0 && i > 0 && at[i - 1] == 0 {
                    continue;
                }
                let n = cur.len();
                cur.extend_from_slice(&progs[i][at[i]]);
                at[i] += 1;
                rec(progs, at, cur, f);
                at[i] -= 1;
                cur.truncate(n);
            }
        }
        if done {
            f(cur);
        }
    }
    let mut at = vec![0; progs.len()];
    let mut cur = Vec::new();
    rec(progs, &mut at, &mut cur, f);
}

/// Split a program into begin | accesses | end blocks.
pub fn as_blocks(p: &[Op]) -> Vec<Vec<Op>> {
    let n = p.len();
    let mut v = vec![vec![p[0]]];
    if n > 2 {
        v.push(p[1..n - 1].to_vec());
    }
    v.push(vec![p[n - 1]]);
    v
}

/// With one gc inserted at every position (n+1 variants), calling f for each.
pub fn with_single_gc(h: &[Op], f: &mut dyn FnMut(&[Op])) {
    let mut v = Vec::with_capacity(h.len() + 1);
    for p in 0..=h.len() {
        v.clear();
        v.extend_from_slice(&h[..p]);
        v.push(Op::Gc);
        v.extend_from_slice(&h[p..]);
        f(&v);
    }
}

/// Write-only programs of one transaction over `nent` entities: every subset, written in
/// ascending order, ended by commit or abort.
pub fn write_programs(t: u8, lvl: Lvl, nent: u8) -> Vec<Vec<Op>> {
    let mut out = Vec::new();
    for mask in 0..(1u8 << nent) {
        for end in [Op::Commit(t), Op::Abort(t)] {
            let mut p = vec![Op::Begin(t, lvl)];
            for e in 0..nent {
                if mask & (1 << e) != 0 {
                    p.push(Op::Write(t, e));
                }
            }
            p.push(end);
            out.push(p);
        }
    }
    out
}

/// Read/write programs for C04's exhaustive family: per entity none / r / w / r+w; all accesses in
/// one block (reads first); ended by `end`.
pub fn rw_program(t: u8, lvl: Lvl, nent: u8, code: u32, commit: bool) -> Vec<Op> {
    let mut p = vec![Op::Begin(t, lvl)];
    for e in 0..nent {
        let c = (code >> (2 * e)) & 3;
        if c & 1 != 0 {
            p.push(Op::Read(t, e));
        }
    }
    for e in 0..nent {
        let c = (code >> (2 * e)) & 3;
        if c & 2 != 0 {
            p.push(Op::Write(t, e));
        }
    }
    p.push(if commit { Op::Commit(t) } else { Op::Abort(t) });
    p
}

#[derive(Clone, Copy)]
pub struct RandCfg {
    pub ntx: usize,
    pub nent: u8,
    pub reads: bool,
    /// probability that a transaction is a long-running reader (no writes, ends late or never)
    pub p_reader: f64,
    pub p_gc: f64,
    /// None = mixed
    pub level: Option<Lvl>,
}

/// Random well-formed history: a scheduler picks, step by step, which transaction moves.
pub fn random_history(rng: &mut Rng, c: RandCfg) -> Vec<Op> {
    #[derive(Clone, Copy, PartialEq)]
    enum St {
        New,
        Active,
        Refusable,
        Done,
    }
    let mut st = vec![St::New; c.ntx];
    let reader: Vec<bool> = (0..c.ntx).map(|_| rng.chance(c.p_reader)).collect();
    let never_ends: Vec<bool> = (0..c.ntx).map(|i| reader[i] && rng.chance(0.3)).collect();
    let mut nops = vec![0usize; c.ntx];
    let mut budget: Vec<usize> = (0..c.ntx).map(|_| rng.below(4)).collect();
    let mut h = Vec::new();
    let mut guard = 0;
    while st.iter().any(|s| *s != St::Done) && guard < 200 {
        guard += 1;
        if rng.chance(c.p_gc) {
            h.push(Op::Gc);
        }
        let live: Vec<usize> = (0..c.ntx).filter(|i| st[*i] != St::Done).collect();
        let i = *rng.pick(&live);
        let t = i as u8;
        match st[i] {
            St::New => {
                let l = c.level.unwrap_or_else(|| Lvl::from_index(rng.below(3)));
                h.push(Op::Begin(t, l));
                st[i] = St::Active;
            }
            St::Active | St::Refusable => {
                let want_more = nops[i] < budget[i] + usize::from(!reader[i]);
                if want_more && rng.chance(0.75) {
                    let e = rng.below(c.nent as usize) as u8;
                    if reader[i] {
                        if c.reads {
                            h.push(Op::Read(t, e));
                        }
                    } else if c.reads && rng.chance(0.45) {
                        h.push(Op::Read(t, e));
                    } else {
                        h.push(Op::Write(t, e));
                    }
                    nops[i] += 1;
                } else if reader[i] && never_ends[i] {
                    // pins its epoch to the end of the history
                    if live.len() == live.iter().filter(|j| reader[**j] && never_ends[**j]).count() {
                        st[i] = St::Done;
                    } else if rng.chance(0.1) {
                        st[i] = St::Done;
                    }
                } else if reader[i] && live.iter().any(|j| !reader[*j]) && rng.chance(0.8) {
                    // long-running: wait for the writers
                } else if rng.chance(0.85) {
                    h.push(Op::Commit(t));
                    // a refused commit leaves the transaction open; sometimes the client retries
                    if st[i] == St::Active && rng.chance(0.2) {
                        st[i] = St::Refusable;
                        budget[i] += 1;
                    } else {
                        st[i] = St::Done;
                    }
                } else {
                    h.push(Op::Abort(t));
                    st[i] = St::Done;
                }
            }
            St::Done => {}
        }
    }
    h
}

/// Named anomaly shapes over (x=0, y=1[, z=2]); `ord` selects one of the interleavings.
pub fn shape_write_skew(l: [Lvl; 2]) -> Vec<Vec<Op>> {
    use Op::*;
    vec![
        vec![Begin(0, l[0]), Read(0, 0), Read(0, 1), Write(0, 0), Commit(0)],
        vec![Begin(1, l[1]), Read(1, 0), Read(1, 1), Write(1, 1), Commit(1)],
    ]
}
pub fn shape_lost_update(l: [Lvl; 2]) -> Vec<Vec<Op>> {
    use Op::*;
    vec![vec![Begin(0, l[0]), Read(0, 0), Write(0, 0), Commit(0)], vec![Begin(1, l[1]), Read(1, 0), Write(1, 0), Commit(1)]]
}
/// Fekete/O'Neil read-only anomaly: T0 (withdraw with penalty) reads x,y writes x; T1 (deposit)
/// reads y writes y; T2 read-only reads x,y after T1 committed and before T0 commits.
pub fn shape_read_only_anomaly(l: [Lvl; 3]) -> Vec<Op> {
    use Op::*;
    vec![
        Begin(0, l[0]),
        Read(0, 0),
        Read(0, 1),
        Begin(1, l[1]),
        Read(1, 1),
        Write(1, 1),
        Commit(1),
        Begin(2, l[2]),
        Read(2, 0),
        Read(2, 1),
        Commit(2),
        Write(0, 0),
        Commit(0),
    ]
}
/// Three-transaction rw cycle: Ti reads e(i+1) and writes e(i).
pub fn shape_three_cycle(l: [Lvl; 3]) -> Vec<Vec<Op>> {
    use Op::*;
    (0..3u8).map(|i| vec![Begin(i, l[i as usize]), Read(i, (i + 1) % 3), Write(i, i), Commit(i)]).collect()
}

/// Random structural mutation; the executor skips what no longer makes sense.
pub fn mutate(rng: &mut Rng, h: &mut Vec<Op>, ntx: usize, nent: u8) {
    let n = 1 + rng.below(3);
    for _ in 0..n {
        if h.is_empty() {
            return;
        }
        match rng.below(7) {
            0 => {
                let i = rng.below(h.len());
                let j = rng.below(h.len());
                let x = h.remove(i);
                h.insert(j.min(h.len()), x);
            }
            1 => {
                let i = rng.below(h.len() + 1);
                h.insert(i, Op::Gc);
            }
            2 => {
                let i = rng.below(h.len());
                if !matches!(h[i], Op::Begin(..)) {
                    h.remove(i);
                }
            }
            3 => {
                let i = rng.below(h.len() + 1);
                let t = rng.below(ntx) as u8;
                let e = rng.below(nent as usize) as u8;
                h.insert(i, if rng.chance(0.5) { Op::Read(t, e) } else { Op::Write(t, e) });
            }
            4 => {
                let i = rng.below(h.len());
                if let Op::Begin(t, _) = h[i] {
                    h[i] = Op::Begin(t, Lvl::from_index(rng.below(3)));
                }
            }
            5 => {
                let i = rng.below(h.len());
                h[i] = match h[i] {
                    Op::Read(t, e) => Op::Write(t, e),
                    Op::Write(t, e) => Op::Read(t, e),
                    Op::Commit(t) => Op::Abort(t),
                    x => x,
                };
            }
            _ => {
                // move a begin earlier (turns a late starter into an overlapping one) or later
                let tt = rng.below(ntx);
                if let Some(i) = h.iter().position(|o| matches!(o, Op::Begin(t, _) if *t as usize == tt)) {
                    let x = h.remove(i);
                    let j = rng.below(i + 1);
                    h.insert(j, x);
                }
            }
        }
    }
    // well-formedness: a Begin must precede the other ops of its transaction -> move begins of
    // transactions whose first op is not a Begin to the front of their first op
    for t in 0..ntx as u8 {
        let first = h.iter().position(|o| match o {
            Op::Begin(x, _) | Op::Write(x, _) | Op::Read(x, _) | Op::Commit(x) | Op::Abort(x) => *x == t,
            Op::Gc => false,
        });
        let bpos = h.iter().position(|o| matches!(o, Op::Begin(x, _) if *x == t));
        if let (Some(f), Some(b)) = (first, bpos) {
            if b > f {
                let x = h.remove(b);
                h.insert(f, x);
            }
        }
    }
}

pub fn all_serializable(h: &[Op]) -> bool {
    h.iter().all(|o| !matches!(o, Op::Begin(_, l) if *l != Lvl::Ser))
}

/// Run `work(worker_index, n_workers, &mut Acc)` on several threads and merge.
pub fn parallel(workers: usize, work: impl Fn(usize, usize, &mut Acc) + Sync) -> Acc {
    let mut total = Acc::default();
    let accs: Vec<Acc> = std::thread::scope(|s| {
        let hs: Vec<_> = (0..workers)
            .map(|w| {
                let work = &work;
                s.spawn(move || {
                    let mut a = Acc::default();
                    work(w, workers, &mut a);
                    a
                })
            })
            .collect();
        hs.into_iter().map(|h| h.join().expect("worker")).collect()
    });
    for a in accs {
        total.merge(a);
    }
    total
}

pub fn n_workers() -> usize {
    std::thread::available_parallelism().map_or(4, |n| n.get()).clamp(2, 12)
}
