//! C13, query level: SPARQL-core AST, generator, renderer, reference evaluator, comparison,
//! shrinker and witness skeletons. The reference evaluator follows the SPARQL 1.1 algebra
//! (section 18) for the fragment the property names: BGP, join on shared variables, FILTER
//! (errors -> false), OPTIONAL = LeftJoin (top-level filters of the optional group are the
//! LeftJoin condition), UNION, DISTINCT, ORDER BY / LIMIT / OFFSET, COUNT / GROUP BY and the
//! updates INSERT DATA / DELETE DATA / DELETE WHERE / CLEAR.

use crate::rng::Rng;
use crate::util::{Panic, catch};
use grafeo_common::types::Value;
use grafeo_core::graph::rdf::{Literal, Term, Triple};
use grafeo_engine::GrafeoDB;
use serde_json::{Value as J, json};
use std::collections::{BTreeMap, BTreeSet};

pub const XSD: &str = "http://www.w3.org/2001/XMLSchema#";

// ---------------------------------------------------------------------------------------
// terms
// ---------------------------------------------------------------------------------------

/// A term with a total order (by its N-Triples rendering, which is injective).
#[derive(Clone, Debug)]
pub struct T {
    pub k: String,
    pub t: Term,
}
impl T {
    pub fn new(t: Term) -> Self {
        T { k: t.to_string(), t }
    }
}
impl PartialEq for T {
    fn eq(&self, o: &Self) -> bool {
        self.k == o.k
    }
}
impl Eq for T {}
impl PartialOrd for T {
    fn partial_cmp(&self, o: &Self) -> Option<std::cmp::Ordering> {
        Some(self.cmp(o))
    }
}
impl Ord for T {
    fn cmp(&self, o: &Self) -> std::cmp::Ordering {
        self.k.cmp(&o.k)
    }
}

pub type TKey = (String, String, String);
pub fn tkey(t: &Triple) -> TKey {
    (t.subject().to_string(), t.predicate().to_string(), t.object().to_string())
}
pub fn nt(t: &Triple) -> String {
    t.to_string()
}

/// The way the engine's result columns show a term (planner_rdf.rs term_to_string /
/// push_term_value): IRI text, `_:id`, lexical form of a literal. Solutions are compared
/// after this rendering; loss of datatype / language tag in result cells is not judged.
pub fn engine_render(t: &Term) -> String {
    match t {
        Term::Iri(i) => i.as_str().to_string(),
        Term::BlankNode(b) => format!("_:{}", b.id()),
        Term::Literal(l) => l.value().to_string(),
    }
}

fn is_numeric_dt(dt: &str) -> bool {
    matches!(
        dt.strip_prefix(XSD),
        Some("integer" | "decimal" | "double" | "float" | "int" | "long" | "short" | "byte" | "nonNegativeInteger" | "positiveInteger")
    )
}
pub fn numeric(t: &Term) -> Option<f64> {
    match t {
        Term::Literal(l) if l.language().is_none() && is_numeric_dt(l.datatype()) => l.value().parse::<f64>().ok(),
        _ => None,
    }
}
fn simple_str(t: &Term) -> Option<&str> {
    match t {
        Term::Literal(l) if l.is_simple() => Some(l.value()),
        _ => None,
    }
}
fn boolean(t: &Term) -> Option<bool> {
    match t {
        Term::Literal(l) if l.language().is_none() && l.datatype() == Literal::XSD_BOOLEAN => match l.value() {
            "true" | "1" => Some(true),
            "false" | "0" => Some(false),
            _ => None,
        },
        _ => None,
    }
}
/// coarse class of a term (for signatures)
pub fn kind(t: &Term) -> &'static str {
    match t {
        Term::Iri(_) => "iri",
        Term::BlankNode(_) => "blank",
        Term::Literal(l) => {
            if l.language().is_some() {
                "lang"
            } else if l.is_simple() {
                "str"
            } else if numeric(t).is_some() {
                "num"
            } else {
                "typed"
            }
        }
    }
}

// ---------------------------------------------------------------------------------------
// AST
// ---------------------------------------------------------------------------------------

#[derive(Clone, Debug, PartialEq)]
pub enum PT {
    V(String),
    C(Term),
}
#[derive(Clone, Debug, PartialEq)]
pub struct TP {
    pub s: PT,
    pub p: PT,
    pub o: PT,
}
#[derive(Clone, Copy, Debug, PartialEq, Eq)]
pub enum Op {
    Eq,
    Ne,
    Lt,
    Le,
    Gt,
    Ge,
}
#[derive(Clone, Debug, PartialEq)]
pub enum Ex {
    Var(String),
    /// numeric constant: lexical form as written in the query (integer or decimal)
    Num(String),
    /// constant term (IRI or plain string); evaluated and rendered, but the generator is
    /// restricted to numeric constants (workload W of the design)
    #[allow(dead_code)]
    Const(Term),
    Cmp(Op, Box<Ex>, Box<Ex>),
    Bound(String),
    Not(Box<Ex>),
    And(Box<Ex>, Box<Ex>),
    Or(Box<Ex>, Box<Ex>),
}
#[derive(Clone, Debug, PartialEq)]
pub enum El {
    T(TP),
    Opt(Vec<El>),
    Union(Vec<El>, Vec<El>),
    Filter(Ex),
}
#[derive(Clone, Debug, PartialEq)]
pub enum AggWhat {
    Star,
    Var(String),
    DistinctVar(String),
}
#[derive(Clone, Debug, PartialEq)]
pub struct Agg {
    pub group: Option<String>,
    pub what: AggWhat,
}
#[derive(Clone, Debug, PartialEq)]
pub struct Query {
    pub distinct: bool,
    pub proj: Option<Vec<String>>,
    pub agg: Option<Agg>,
    pub body: Vec<El>,
    pub order: Vec<(String, bool)>,
    pub limit: Option<usize>,
    pub offset: Option<usize>,
}
#[derive(Clone, Debug, PartialEq)]
pub enum Update {
    InsertData(Vec<Triple>),
    DeleteData(Vec<Triple>),
    DeleteWhere(Vec<TP>),
    Clear(&'static str),
}

// ---------------------------------------------------------------------------------------
// rendering to SPARQL text
// ---------------------------------------------------------------------------------------

fn esc(s: &str) -> String {
    let mut o = String::new();
    for c in s.chars() {
        match c {
            '"' => o.push_str("\\\""),
            '\\' => o.push_str("\\\\"),
            '\n' => o.push_str("\\n"),
            _ => o.push(c),
        }
    }
    o
}
pub fn term_sparql(t: &Term) -> String {
    match t {
        Term::Iri(i) => format!("<{}>", i.as_str()),
        Term::BlankNode(b) => format!("_:{}", b.id()),
        Term::Literal(l) => {
            if let Some(lang) = l.language() {
                format!("\"{}\"@{}", esc(l.value()), lang)
            } else if l.is_simple() {
                format!("\"{}\"", esc(l.value()))
            } else {
                format!("\"{}\"^^<{}>", esc(l.value()), l.datatype())
            }
        }
    }
}
fn pt_sparql(p: &PT) -> String {
    match p {
        PT::V(v) => format!("?{v}"),
        PT::C(t) => term_sparql(t),
    }
}
fn tp_sparql(t: &TP) -> String {
    format!("{} {} {} .", pt_sparql(&t.s), pt_sparql(&t.p), pt_sparql(&t.o))
}
fn ex_sparql(e: &Ex) -> String {
    match e {
        Ex::Var(v) => format!("?{v}"),
        Ex::Num(n) => n.clone(),
        Ex::Const(t) => term_sparql(t),
        Ex::Cmp(op, a, b) => {
            let o = match op {
                Op::Eq => "=",
                Op::Ne => "!=",
                Op::Lt => "<",
                Op::Le => "<=",
                Op::Gt => ">",
                Op::Ge => ">=",
            };
            format!("({} {} {})", ex_sparql(a), o, ex_sparql(b))
        }
        Ex::Bound(v) => format!("bound(?{v})"),
        Ex::Not(a) => format!("(!{})", ex_sparql(a)),
        Ex::And(a, b) => format!("({} && {})", ex_sparql(a), ex_sparql(b)),
        Ex::Or(a, b) => format!("({} || {})", ex_sparql(a), ex_sparql(b)),
    }
}
fn group_sparql(g: &[El]) -> String {
    let mut parts = Vec::new();
    for e in g {
        parts.push(match e {
            El::T(t) => tp_sparql(t),
            El::Opt(g) => format!("OPTIONAL {}", group_sparql(g)),
            El::Union(a, b) => format!("{} UNION {}", group_sparql(a), group_sparql(b)),
            El::Filter(x) => format!("FILTER({})", ex_sparql(x)),
        });
    }
    format!("{{ {} }}", parts.join(" "))
}
pub fn query_sparql(q: &Query) -> String {
    let mut s = String::from("SELECT ");
    if let Some(a) = &q.agg {
        if let Some(g) = &a.group {
            s.push_str(&format!("?{g} "));
        }
        s.push_str(&match &a.what {
            AggWhat::Star => "(COUNT(*) AS ?cnt)".to_string(),
            AggWhat::Var(v) => format!("(COUNT(?{v}) AS ?cnt)"),
            AggWhat::DistinctVar(v) => format!("(COUNT(DISTINCT ?{v}) AS ?cnt)"),
        });
    } else {
        if q.distinct {
            s.push_str("DISTINCT ");
        }
        match &q.proj {
            None => s.push('*'),
            Some(vs) => s.push_str(&vs.iter().map(|v| format!("?{v}")).collect::<Vec<_>>().join(" ")),
        }
    }
    s.push_str(" WHERE ");
    s.push_str(&group_sparql(&q.body));
    if let Some(Agg { group: Some(g), .. }) = &q.agg {
        s.push_str(&format!(" GROUP BY ?{g}"));
    }
    if !q.order.is_empty() {
        s.push_str(" ORDER BY");
        for (v, desc) in &q.order {
            s.push_str(&if *desc { format!(" DESC(?{v})") } else { format!(" ?{v}") });
        }
    }
    if let Some(l) = q.limit {
        s.push_str(&format!(" LIMIT {l}"));
    }
    if let Some(o) = q.offset {
        s.push_str(&format!(" OFFSET {o}"));
    }
    s
}
pub fn update_sparql(u: &Update) -> String {
    let data = |ts: &[Triple]| {
        ts.iter()
            .map(|t| format!("{} {} {} .", term_sparql(t.subject()), term_sparql(t.predicate()), term_sparql(t.object())))
            .collect::<Vec<_>>()
            .join(" ")
    };
    match u {
        Update::InsertData(ts) => format!("INSERT DATA {{ {} }}", data(ts)),
        Update::DeleteData(ts) => format!("DELETE DATA {{ {} }}", data(ts)),
        Update::DeleteWhere(ps) => format!("DELETE WHERE {{ {} }}", ps.iter().map(tp_sparql).collect::<Vec<_>>().join(" ")),
        Update::Clear(what) => format!("CLEAR {what}"),
    }
}

// ---------------------------------------------------------------------------------------
// variables in scope
// ---------------------------------------------------------------------------------------

fn tp_vars(t: &TP, out: &mut Vec<String>) {
    for p in [&t.s, &t.p, &t.o] {
        if let PT::V(v) = p {
            if !out.contains(v) {
                out.push(v.clone());
            }
        }
    }
}
pub fn group_vars(g: &[El], out: &mut Vec<String>) {
    for e in g {
        match e {
            El::T(t) => tp_vars(t, out),
            El::Opt(g) => group_vars(g, out),
            El::Union(a, b) => {
                group_vars(a, out);
                group_vars(b, out);
            }
            El::Filter(_) => {}
        }
    }
}
fn count_tps(g: &[El]) -> usize {
    g.iter()
        .map(|e| match e {
            El::T(_) => 1,
            El::Opt(g) => count_tps(g),
            El::Union(a, b) => count_tps(a) + count_tps(b),
            El::Filter(_) => 0,
        })
        .sum()
}

// ---------------------------------------------------------------------------------------
// reference evaluator
// ---------------------------------------------------------------------------------------

pub type Sol = BTreeMap<String, T>;

fn match_pt(p: &PT, term: &Term, mu: &mut Sol) -> bool {
    match p {
        PT::C(c) => c == term,
        PT::V(v) => match mu.get(v) {
            Some(b) => b.t == *term,
            None => {
                mu.insert(v.clone(), T::new(term.clone()));
                true
            }
        },
    }
}
fn extend_tp(omega: Vec<Sol>, tp: &TP, data: &[Triple]) -> Vec<Sol> {
    let mut out = Vec::new();
    for mu in &omega {
        for t in data {
            let mut m = mu.clone();
            if match_pt(&tp.s, t.subject(), &mut m) && match_pt(&tp.p, t.predicate(), &mut m) && match_pt(&tp.o, t.object(), &mut m) {
                out.push(m);
            }
        }
    }
    out
}
fn compatible(a: &Sol, b: &Sol) -> bool {
    b.iter().all(|(k, v)| a.get(k).is_none_or(|x| x == v))
}
fn merge(a: &Sol, b: &Sol) -> Sol {
    let mut m = a.clone();
    for (k, v) in b {
        m.entry(k.clone()).or_insert_with(|| v.clone());
    }
    m
}
fn join(a: &[Sol], b: &[Sol]) -> Vec<Sol> {
    let mut out = Vec::new();
    for x in a {
        for y in b {
            if compatible(x, y) {
                out.push(merge(x, y));
            }
        }
    }
    out
}

/// operand of a comparison
enum Opd {
    Term(Term),
    Num(f64),
}
#[derive(Debug)]
struct TypeError;

fn operand(e: &Ex, mu: &Sol) -> Result<Opd, TypeError> {
    match e {
        Ex::Var(v) => mu.get(v).map(|t| Opd::Term(t.t.clone())).ok_or(TypeError),
        Ex::Num(n) => n.parse::<f64>().map(Opd::Num).map_err(|_| TypeError),
        Ex::Const(t) => Ok(Opd::Term(t.clone())),
        _ => Err(TypeError), // boolean sub-expressions as comparison operands are not generated
    }
}
fn apply(op: Op, o: std::cmp::Ordering) -> bool {
    match op {
        Op::Eq => o.is_eq(),
        Op::Ne => o.is_ne(),
        Op::Lt => o.is_lt(),
        Op::Le => o.is_le(),
        Op::Gt => o.is_gt(),
        Op::Ge => o.is_ge(),
    }
}
fn cmp(op: Op, a: &Opd, b: &Opd) -> Result<bool, TypeError> {
    let num = |x: &Opd| match x {
        Opd::Num(n) => Some(*n),
        Opd::Term(t) => numeric(t),
    };
    if let (Some(x), Some(y)) = (num(a), num(b)) {
        return x.partial_cmp(&y).map(|o| apply(op, o)).ok_or(TypeError);
    }
    let (ta, tb) = match (a, b) {
        (Opd::Term(x), Opd::Term(y)) => (x, y),
        // a numeric constant against a non-numeric term
        (Opd::Num(_), Opd::Term(t)) | (Opd::Term(t), Opd::Num(_)) => {
            return match (op, t) {
                // RDFterm-equal: literal vs literal that are not the same term -> type error;
                // literal vs IRI / blank node -> not equal
                (Op::Eq, Term::Iri(_) | Term::BlankNode(_)) => Ok(false),
                (Op::Ne, Term::Iri(_) | Term::BlankNode(_)) => Ok(true),
                _ => Err(TypeError),
            };
        }
        _ => return Err(TypeError),
    };
    if let (Some(x), Some(y)) = (simple_str(ta), simple_str(tb)) {
        return Ok(apply(op, x.cmp(y)));
    }
    if let (Some(x), Some(y)) = (boolean(ta), boolean(tb)) {
        return Ok(apply(op, x.cmp(&y)));
    }
    match op {
        Op::Eq | Op::Ne => {
            let same = ta == tb;
            if same {
                return Ok(op == Op::Eq);
            }
            if ta.is_literal() && tb.is_literal() {
                return Err(TypeError);
            }
            Ok(op == Op::Ne)
        }
        _ => Err(TypeError),
    }
}
fn ebv(e: &Ex, mu: &Sol) -> Result<bool, TypeError> {
    match e {
        Ex::Cmp(op, a, b) => cmp(*op, &operand(a, mu)?, &operand(b, mu)?),
        Ex::Bound(v) => Ok(mu.contains_key(v)),
        Ex::Not(a) => ebv(a, mu).map(|b| !b),
        Ex::And(a, b) => match (ebv(a, mu), ebv(b, mu)) {
            (Ok(false), _) | (_, Ok(false)) => Ok(false),
            (Ok(true), Ok(true)) => Ok(true),
            _ => Err(TypeError),
        },
        Ex::Or(a, b) => match (ebv(a, mu), ebv(b, mu)) {
            (Ok(true), _) | (_, Ok(true)) => Ok(true),
            (Ok(false), Ok(false)) => Ok(false),
            _ => Err(TypeError),
        },
        // bare terms as filters are not generated
        Ex::Var(_) | Ex::Num(_) | Ex::Const(_) => Err(TypeError),
    }
}
fn holds(fs: &[&Ex], mu: &Sol) -> bool {
    fs.iter().all(|f| matches!(ebv(f, mu), Ok(true)))
}

pub const MAX_SOLS: usize = 4000;
pub struct TooLarge;

pub fn eval_group(g: &[El], data: &[Triple]) -> Result<Vec<Sol>, TooLarge> {
    let mut omega: Vec<Sol> = vec![Sol::new()];
    let mut filters: Vec<&Ex> = Vec::new();
    for e in g {
        match e {
            El::T(tp) => omega = extend_tp(omega, tp, data),
            El::Opt(inner) => {
                // LeftJoin(omega, eval(inner without its top-level filters), those filters)
                let cond: Vec<&Ex> = inner.iter().filter_map(|x| if let El::Filter(f) = x { Some(f) } else { None }).collect();
                let rest: Vec<El> = inner.iter().filter(|x| !matches!(x, El::Filter(_))).cloned().collect();
                let right = eval_group(&rest, data)?;
                let mut out = Vec::new();
                for mu in &omega {
                    let mut any = false;
                    for r in &right {
                        if compatible(mu, r) {
                            let m = merge(mu, r);
                            if holds(&cond, &m) {
                                out.push(m);
                                any = true;
                            }
                        }
                    }
                    if !any {
                        out.push(mu.clone());
                    }
                }
                omega = out;
            }
            El::Union(a, b) => {
                let mut u = eval_group(a, data)?;
                u.extend(eval_group(b, data)?);
                omega = join(&omega, &u);
            }
            El::Filter(f) => filters.push(f),
        }
        if omega.len() > MAX_SOLS {
            return Err(TooLarge);
        }
    }
    omega.retain(|mu| holds(&filters, mu));
    Ok(omega)
}

// ---------------------------------------------------------------------------------------
// expected answers and comparison
// ---------------------------------------------------------------------------------------

/// A result cell as compared: None = unbound, Some(text) = engine rendering of the term or
/// the decimal text of a count.
pub type Cell = Option<String>;
pub type Row = Vec<Cell>;

/// SPARQL 15.1 ordering where it is defined; None = the standard leaves it open.
fn order_cmp(a: &Option<T>, b: &Option<T>) -> Option<std::cmp::Ordering> {
    use std::cmp::Ordering::*;
    let rank = |x: &Option<T>| match x {
        None => 0,
        Some(t) => match t.t {
            Term::BlankNode(_) => 1,
            Term::Iri(_) => 2,
            Term::Literal(_) => 3,
        },
    };
    let (ra, rb) = (rank(a), rank(b));
    if ra != rb {
        return Some(ra.cmp(&rb));
    }
    match (a, b) {
        (None, None) => Some(Equal),
        (Some(x), Some(y)) => {
            if x == y {
                return Some(Equal);
            }
            match (&x.t, &y.t) {
                (Term::Iri(i), Term::Iri(j)) => Some(i.as_str().cmp(j.as_str())),
                (Term::Literal(_), Term::Literal(_)) => {
                    if let (Some(m), Some(n)) = (numeric(&x.t), numeric(&y.t)) {
                        // equal numeric values of different lexical form: order open
                        return match m.partial_cmp(&n) {
                            Some(Equal) | None => None,
                            o => o,
                        };
                    }
                    if let (Some(m), Some(n)) = (simple_str(&x.t), simple_str(&y.t)) {
                        return Some(m.cmp(n));
                    }
                    None
                }
                _ => None, // blank vs blank
            }
        }
        _ => None,
    }
}
fn okind(x: &Option<T>) -> &'static str {
    match x {
        None => "unbound",
        Some(t) => match kind(&t.t) {
            k @ ("blank" | "iri" | "num" | "str") => k,
            _ => "literal",
        },
    }
}

pub struct Expected {
    pub cols: Vec<String>,
    /// the full (unsliced) projected solution sequence, in a valid order if ORDER BY is present
    pub full: Vec<Row>,
    /// sort keys of `full` (parallel), as terms
    keys: Vec<Vec<Option<T>>>,
    pub order_total: bool,
    pub nontrivial: bool,
}

pub fn expected(q: &Query, data: &[Triple]) -> Result<Expected, TooLarge> {
    let mut sols = eval_group(&q.body, data)?;
    let nontrivial = !sols.is_empty();
    if let Some(a) = &q.agg {
        let count = |ss: &[&Sol]| -> usize {
            match &a.what {
                AggWhat::Star => ss.len(),
                AggWhat::Var(v) => ss.iter().filter(|s| s.contains_key(v)).count(),
                AggWhat::DistinctVar(v) => ss.iter().filter_map(|s| s.get(v)).collect::<BTreeSet<_>>().len(),
            }
        };
        let mut full = Vec::new();
        let cols;
        match &a.group {
            None => {
                cols = vec!["cnt".to_string()];
                let all: Vec<&Sol> = sols.iter().collect();
                full.push(vec![Some(count(&all).to_string())]);
            }
            Some(g) => {
                cols = vec![g.clone(), "cnt".to_string()];
                let mut groups: BTreeMap<Option<T>, Vec<&Sol>> = BTreeMap::new();
                for s in &sols {
                    groups.entry(s.get(g).cloned()).or_default().push(s);
                }
                for (k, ss) in groups {
                    full.push(vec![k.map(|t| engine_render(&t.t)), Some(count(&ss).to_string())]);
                }
            }
        }
        let n = full.len();
        return Ok(Expected { cols, full, keys: vec![Vec::new(); n], order_total: false, nontrivial });
    }
    let cols: Vec<String> = match &q.proj {
        Some(p) => p.clone(),
        None => {
            let mut v = Vec::new();
            group_vars(&q.body, &mut v);
            v.sort();
            v
        }
    };
    // ORDER BY (stable, on the defined part of the order; undefined pairs stay as they are)
    let mut order_total = !q.order.is_empty();
    if !q.order.is_empty() {
        let keyf = |s: &Sol| -> Vec<Option<T>> { q.order.iter().map(|(v, _)| s.get(v).cloned()).collect() };
        // totality: every pair of key tuples is comparable
        let ks: Vec<Vec<Option<T>>> = sols.iter().map(keyf).collect();
        'outer: for i in 0..ks.len() {
            for j in (i + 1)..ks.len() {
                if key_cmp(&ks[i], &ks[j], &q.order).is_none() {
                    order_total = false;
                    break 'outer;
                }
            }
        }
        if order_total {
            sols.sort_by(|x, y| key_cmp(&keyf(x), &keyf(y), &q.order).unwrap());
        }
    }
    let keys: Vec<Vec<Option<T>>> = sols.iter().map(|s| q.order.iter().map(|(v, _)| s.get(v).cloned()).collect()).collect();
    let mut full: Vec<Row> = sols.iter().map(|s| cols.iter().map(|c| s.get(c).map(|t| engine_render(&t.t))).collect()).collect();
    let mut keys = keys;
    if q.distinct {
        // DISTINCT is on solutions (terms), applied after projection
        let mut seen = BTreeSet::new();
        let mut f2 = Vec::new();
        let mut k2 = Vec::new();
        for (i, s) in sols.iter().enumerate() {
            let proj: Vec<Option<&T>> = cols.iter().map(|c| s.get(c)).collect();
            let id: Vec<Option<String>> = proj.iter().map(|t| t.map(|t| t.k.clone())).collect();
            if seen.insert(id) {
                f2.push(full[i].clone());
                k2.push(keys[i].clone());
            }
        }
        full = f2;
        keys = k2;
    }
    Ok(Expected { cols, full, keys, order_total, nontrivial })
}

fn key_cmp(a: &[Option<T>], b: &[Option<T>], spec: &[(String, bool)]) -> Option<std::cmp::Ordering> {
    for (i, (_, desc)) in spec.iter().enumerate() {
        match order_cmp(&a[i], &b[i])? {
            std::cmp::Ordering::Equal => continue,
            o => return Some(if *desc { o.reverse() } else { o }),
        }
    }
    Some(std::cmp::Ordering::Equal)
}

#[derive(Clone, Debug)]
pub struct Mismatch {
    pub kind: String,
    pub detail: J,
    /// updates: the triples that are wrongly present / absent afterwards
    pub triples: Vec<Triple>,
}

fn cell_of(v: &Value) -> Cell {
    match v {
        Value::Null => None,
        Value::String(s) => Some(s.to_string()),
        Value::Int64(i) => Some(i.to_string()),
        Value::Bool(b) => Some(b.to_string()),
        Value::Float64(f) => Some(f.to_string()),
        other => Some(format!("{other:?}")),
    }
}
fn multiset(rows: &[Row]) -> BTreeMap<&Row, usize> {
    let mut m = BTreeMap::new();
    for r in rows {
        *m.entry(r).or_insert(0usize) += 1;
    }
    m
}
fn show_rows(rows: &[Row]) -> J {
    json!(rows.iter().take(12).map(|r| r.iter().map(|c| c.clone().map_or(J::Null, J::String)).collect::<Vec<_>>()).collect::<Vec<_>>())
}

/// Compare the engine's answer with the expectation. None = agrees.
pub fn compare(q: &Query, exp: &Expected, columns: &[String], rows: &[Vec<Value>], null_as_empty: bool) -> Option<Mismatch> {
    let normalised;
    let exp = if null_as_empty {
        let norm = |r: &Row| -> Row { r.iter().map(|c| c.clone().filter(|s| !s.is_empty())).collect() };
        normalised = Expected { cols: exp.cols.clone(), full: exp.full.iter().map(norm).collect(), keys: exp.keys.clone(), order_total: exp.order_total, nontrivial: exp.nontrivial };
        &normalised
    } else {
        exp
    };
    // columns: same names (order free; an explicit projection is compared by name too)
    let mut ec = exp.cols.clone();
    ec.sort();
    let mut oc: Vec<String> = columns.to_vec();
    oc.sort();
    if ec != oc {
        return Some(Mismatch { kind: "columns".into(), detail: json!({"expected_columns": exp.cols, "observed_columns": columns}), triples: Vec::new() });
    }
    let idx: Vec<usize> = exp.cols.iter().map(|c| columns.iter().position(|x| x == c).unwrap()).collect();
    let obs: Vec<Row> = rows
        .iter()
        .map(|r| idx.iter().map(|&i| r.get(i).map_or(None, cell_of).filter(|s| !(null_as_empty && s.is_empty()))).collect())
        .collect();
    let d = |kind: &str, extra: J| {
        Some(Mismatch { kind: kind.to_string(), detail: json!({"expected": show_rows(&exp.full), "expected_rows": exp.full.len(), "observed": show_rows(&obs), "observed_rows": obs.len(), "note": extra}), triples: Vec::new() })
    };
    let sliced = q.limit.is_some() || q.offset.is_some();
    let full_ms = multiset(&exp.full);
    let obs_ms = multiset(&obs);
    if !sliced {
        let missing = full_ms.iter().any(|(r, n)| obs_ms.get(*r).copied().unwrap_or(0) < *n);
        let extra = obs_ms.iter().any(|(r, n)| full_ms.get(*r).copied().unwrap_or(0) < *n);
        match (missing, extra) {
            (true, true) => return d("wrong value", J::Null),
            (true, false) => return d("missing rows", J::Null),
            (false, true) => return d("extra rows", J::Null),
            _ => {}
        }
    } else {
        let off = q.offset.unwrap_or(0).min(exp.full.len());
        let want = (exp.full.len() - off).min(q.limit.unwrap_or(usize::MAX));
        let not_sub = obs_ms.iter().any(|(r, n)| full_ms.get(*r).copied().unwrap_or(0) < *n);
        if not_sub {
            return d(if obs.len() > want { "extra rows" } else { "wrong value" }, json!("rows outside the full solution sequence"));
        }
        if obs.len() < want {
            return d("missing rows", json!({"want": want}));
        }
        if obs.len() > want {
            return d("extra rows", json!({"want": want}));
        }
    }
    if q.order.is_empty() || q.agg.is_some() {
        return None;
    }
    // ORDER BY: sort keys are projected (generator guarantees it), so read them from the rows
    let kpos: Vec<usize> = q.order.iter().filter_map(|(v, _)| exp.cols.iter().position(|c| c == v)).collect();
    if kpos.len() != q.order.len() {
        return None;
    }
    // cell text -> term, through the expected rows (the rendering may be ambiguous: then skip)
    let mut back: BTreeMap<(usize, Cell), BTreeSet<Option<T>>> = BTreeMap::new();
    for (r, k) in exp.full.iter().zip(&exp.keys) {
        for (j, &p) in kpos.iter().enumerate() {
            back.entry((p, r[p].clone())).or_default().insert(k[j].clone());
        }
    }
    // rows whose key cells could stand for several terms are left out of the order check
    let okeys_opt: Vec<Option<Vec<Option<T>>>> = obs
        .iter()
        .map(|r| {
            kpos.iter()
                .map(|&p| back.get(&(p, r[p].clone())).filter(|s| s.len() == 1).and_then(|s| s.iter().next().cloned()))
                .collect::<Option<Vec<_>>>()
        })
        .collect();
    let complete = okeys_opt.iter().all(|k| k.is_some());
    let okeys: Vec<Vec<Option<T>>> = okeys_opt.into_iter().flatten().collect();
    // (a) no definitely-inverted pair
    let n = okeys.len();
    let all_pairs = n <= 300;
    for i in 0..n {
        let hi = if all_pairs { n } else { (i + 2).min(n) };
        for j in (i + 1)..hi {
            if key_cmp(&okeys[i], &okeys[j], &q.order) == Some(std::cmp::Ordering::Greater) {
                // first differing key decides the classes named in the kind
                let mut cls = vec!["?", "?"];
                for k in 0..q.order.len() {
                    if order_cmp(&okeys[i][k], &okeys[j][k]) != Some(std::cmp::Ordering::Equal) {
                        if k > 0 {
                            // decided by a later key: what matters is what the earlier keys tie on
                            return d(&format!("wrong order[after tie on {}]", okind(&okeys[i][k - 1])), json!({"row_i": i, "row_j": j}));
                        }
                        cls = vec![okind(&okeys[i][k]), okind(&okeys[j][k])];
                        break;
                    }
                }
                // different ranks: any literal is just a literal
                if cls[0] != cls[1] {
                    for c in &mut cls {
                        if matches!(*c, "num" | "str") {
                            *c = "literal";
                        }
                    }
                }
                cls.sort_unstable();
                return d(&format!("wrong order[{},{}]", cls[0], cls[1]), json!({"row_i": i, "row_j": j}));
            }
        }
    }
    // (b) with a total order and a slice, the key sequence is determined
    if sliced && exp.order_total && complete {
        let off = q.offset.unwrap_or(0).min(exp.full.len());
        for (i, ok) in okeys.iter().enumerate() {
            let ek = &exp.keys[off + i];
            if key_cmp(ok, ek, &q.order) != Some(std::cmp::Ordering::Equal) {
                return d("wrong slice", json!({"position": i}));
            }
        }
    }
    None
}

// ---------------------------------------------------------------------------------------
// updates: expected triple set
// ---------------------------------------------------------------------------------------

pub fn apply_update(u: &Update, data: &[Triple]) -> Result<BTreeMap<TKey, Triple>, TooLarge> {
    let mut m: BTreeMap<TKey, Triple> = data.iter().map(|t| (tkey(t), t.clone())).collect();
    match u {
        Update::InsertData(ts) => {
            for t in ts {
                m.insert(tkey(t), t.clone());
            }
        }
        Update::DeleteData(ts) => {
            for t in ts {
                m.remove(&tkey(t));
            }
        }
        Update::Clear(_) => m.clear(),
        Update::DeleteWhere(ps) => {
            let g: Vec<El> = ps.iter().cloned().map(El::T).collect();
            let sols = eval_group(&g, data)?;
            for s in &sols {
                for p in ps {
                    let inst = |x: &PT| match x {
                        PT::C(t) => Some(t.clone()),
                        PT::V(v) => s.get(v).map(|t| t.t.clone()),
                    };
                    if let (Some(a), Some(b), Some(c)) = (inst(&p.s), inst(&p.p), inst(&p.o)) {
                        m.remove(&tkey(&Triple::new_unchecked(a, b, c)));
                    }
                }
            }
        }
    }
    Ok(m)
}

// ---------------------------------------------------------------------------------------
// engine driver
// ---------------------------------------------------------------------------------------

pub struct Engine {
    db: GrafeoDB,
    pub via_session: bool,
}
pub enum Ran {
    Rows(Vec<String>, Vec<Vec<Value>>),
    Rejected(String),
    Panicked(Panic),
}
impl Engine {
    pub fn new() -> Self {
        Engine { db: GrafeoDB::new_in_memory(), via_session: false }
    }
    pub fn load(&mut self, data: &[Triple]) {
        let st = self.db.rdf_store();
        st.clear();
        for t in data {
            st.insert(t.clone());
        }
    }
    pub fn run(&mut self, text: &str) -> Ran {
        let via = self.via_session;
        let db = &self.db;
        let r = catch(|| if via { db.session().execute_sparql(text) } else { db.execute_sparql(text) });
        match r {
            Ok(Ok(res)) => Ran::Rows(res.columns.clone(), res.rows.clone()),
            Ok(Err(e)) => Ran::Rejected(e.to_string()),
            Err(p) => {
                self.db = GrafeoDB::new_in_memory();
                Ran::Panicked(p)
            }
        }
    }
    pub fn triples(&self) -> BTreeMap<TKey, Triple> {
        self.db.rdf_store().triples().iter().map(|t| (tkey(t), (**t).clone())).collect()
    }
}

/// Tolerances that stand for OPEN findings (named deviation rules at the comparison level).
/// With a rule off the corresponding behaviour is an ordinary mismatch.
#[derive(Clone, Copy, Debug, Default)]
pub struct Tol {
    /// unbound cells may come back as the empty string (ValueVector loses null marks)
    pub null_as_empty: bool,
    /// SELECT DISTINCT returns the duplicates
    pub distinct_noop: bool,
}

#[derive(Clone, Debug)]
pub enum Outcome {
    /// `under`: the deviation rules that were needed to explain the answer (empty = spec)
    Agree { nontrivial: bool, under: Vec<&'static str> },
    Mismatch(Mismatch),
    Rejected(String),
    Skipped,
}

pub const RULE_NULL: &str = "C13-Q1";
pub const RULE_DISTINCT: &str = "C13-Q2";

pub fn check_query(eng: &mut Engine, q: &Query, data: &[Triple], tol: Tol) -> Outcome {
    let Ok(exp) = expected(q, data) else { return Outcome::Skipped };
    eng.load(data);
    match eng.run(&query_sparql(q)) {
        Ran::Rows(cols, rows) => {
            let Some(m0) = compare(q, &exp, &cols, &rows, false) else {
                return Outcome::Agree { nontrivial: exp.nontrivial, under: Vec::new() };
            };
            let mut last = m0;
            if !tol.null_as_empty && compare(q, &exp, &cols, &rows, true).is_none() {
                // (rule C13-Q1 closed) the only difference is "" where unbound was expected
                last.kind = "unbound shown as empty string".into();
                return Outcome::Mismatch(last);
            }
            let dn = tol.distinct_noop && q.distinct;
            let mut q2 = q.clone();
            q2.distinct = false;
            let exp2 = if dn { expected(&q2, data).ok() } else { None };
            for (nul, dis) in [(true, false), (false, true), (true, true)] {
                if (nul && !tol.null_as_empty) || (dis && !dn) {
                    continue;
                }
                let (qq, ee) = if dis { (&q2, exp2.as_ref().unwrap()) } else { (q, &exp) };
                match compare(qq, ee, &cols, &rows, nul) {
                    None => {
                        let mut under = Vec::new();
                        if nul {
                            under.push(RULE_NULL);
                        }
                        if dis {
                            under.push(RULE_DISTINCT);
                        }
                        return Outcome::Agree { nontrivial: exp.nontrivial, under };
                    }
                    Some(m) => last = m,
                }
            }
            Outcome::Mismatch(last)
        }
        Ran::Rejected(e) => Outcome::Rejected(e),
        Ran::Panicked(p) => Outcome::Mismatch(Mismatch { kind: format!("panic@{}", p.site), detail: json!({"panic": p.msg, "at": p.at}), triples: Vec::new() }),
    }
}

pub fn check_update(eng: &mut Engine, u: &Update, data: &[Triple]) -> Outcome {
    let Ok(exp) = apply_update(u, data) else { return Outcome::Skipped };
    eng.load(data);
    match eng.run(&update_sparql(u)) {
        Ran::Rows(..) => {
            let obs = eng.triples();
            let missing_t: Vec<Triple> = exp.iter().filter(|(k, _)| !obs.contains_key(*k)).map(|(_, t)| t.clone()).collect();
            let extra_t: Vec<Triple> = obs.iter().filter(|(k, _)| !exp.contains_key(*k)).map(|(_, t)| t.clone()).collect();
            let missing: Vec<String> = missing_t.iter().map(nt).collect();
            let extra: Vec<String> = extra_t.iter().map(nt).collect();
            let mut wrong = missing_t;
            wrong.extend(extra_t);
            let kind = match (missing.is_empty(), extra.is_empty()) {
                (true, true) => {
                    let before: BTreeSet<TKey> = data.iter().map(tkey).collect();
                    let after: BTreeSet<TKey> = exp.keys().cloned().collect();
                    return Outcome::Agree { nontrivial: before != after, under: Vec::new() };
                }
                (false, true) => "missing triples",
                (true, false) => "extra triples",
                (false, false) => "wrong triples",
            };
            Outcome::Mismatch(Mismatch { kind: kind.into(), detail: json!({"missing_from_store": missing, "unexpected_in_store": extra}), triples: wrong })
        }
        Ran::Rejected(e) => Outcome::Rejected(e),
        Ran::Panicked(p) => Outcome::Mismatch(Mismatch { kind: format!("panic@{}", p.site), detail: json!({"panic": p.msg, "at": p.at}), triples: Vec::new() }),
    }
}

// ---------------------------------------------------------------------------------------
// generator
// ---------------------------------------------------------------------------------------

pub struct Universe {
    pub subj: Vec<Term>,
    pub pred: Vec<Term>,
    pub obj: Vec<Term>,
}
pub fn iri(n: &str) -> Term {
    Term::iri(format!("http://e/{n}"))
}
pub fn universe() -> Universe {
    let iris: Vec<Term> = ["a", "b", "c", "d", "e", "f", "g", "h"].iter().map(|n| iri(n)).collect();
    let blanks = vec![Term::blank("b0"), Term::blank("b1")];
    let pred: Vec<Term> = ["p", "q", "r", "s"].iter().map(|n| iri(n)).collect();
    let x = |n: &str| format!("{XSD}{n}");
    let lits = vec![
        Term::literal("x"),
        Term::literal("y"),
        Term::literal("5"),
        Term::literal(""),
        Term::literal("http://e/a"),
        Term::lang_literal("x", "en"),
        Term::lang_literal("x", "fr"),
        Term::lang_literal("y", "en"),
        Term::typed_literal("5", x("integer")),
        Term::typed_literal("7", x("integer")),
        Term::typed_literal("10", x("integer")),
        Term::typed_literal("-3", x("integer")),
        Term::typed_literal("05", x("integer")),
        Term::typed_literal("1.5", x("double")),
        Term::typed_literal("5.0", x("double")),
        Term::typed_literal("2.5", x("decimal")),
        Term::typed_literal("true", x("boolean")),
        Term::typed_literal("x", "http://e/dt"),
    ];
    let mut subj = iris.clone();
    subj.extend(blanks.clone());
    let mut obj = iris;
    obj.extend(blanks);
    obj.push(pred[0].clone());
    obj.extend(lits);
    Universe { subj, pred, obj }
}

pub fn gen_data(r: &mut Rng, u: &Universe) -> Vec<Triple> {
    // small subject/object pools so that joins have partners
    let n = match r.below(10) {
        0 => r.below(3),
        1..=6 => 3 + r.below(8),
        _ => 8 + r.below(9),
    };
    let ns = 2 + r.below(4);
    let subj: Vec<Term> = (0..ns).map(|_| r.pick(&u.subj).clone()).collect();
    let no = 3 + r.below(8);
    let mut obj: Vec<Term> = (0..no).map(|_| r.pick(&u.obj).clone()).collect();
    obj.extend(subj.iter().cloned());
    let np = 1 + r.below(3);
    let pred: Vec<Term> = (0..np).map(|_| r.pick(&u.pred).clone()).collect();
    let mut seen = BTreeSet::new();
    let mut out = Vec::new();
    for _ in 0..n {
        let t = Triple::new(r.pick(&subj).clone(), r.pick(&pred).clone(), r.pick(&obj).clone());
        if seen.insert(tkey(&t)) {
            out.push(t);
        }
    }
    out
}

const VARS: [&str; 6] = ["a", "b", "c", "d", "e", "f"];

struct Gen<'a> {
    r: &'a mut Rng,
    u: &'a Universe,
    data: &'a [Triple],
    /// triple patterns still allowed
    budget: usize,
    /// which constructs the front end accepts (found by the probe at start-up)
    caps: &'a Caps,
}

#[derive(Clone, Debug, Default)]
pub struct Caps {
    pub optional: bool,
    pub union: bool,
    pub filter: bool,
    pub bound: bool,
    pub distinct: bool,
    pub order: bool,
    pub limit: bool,
    pub offset: bool,
    pub count: bool,
    pub count_distinct: bool,
    pub group_by: bool,
    pub insert_data: bool,
    pub delete_data: bool,
    pub delete_where: bool,
    pub clear: bool,
    pub lang_const: bool,
    pub typed_const: bool,
}

impl Gen<'_> {
    fn var(&mut self) -> String {
        // skewed towards the first variables so that patterns share them
        let i = match self.r.below(10) {
            0..=3 => 0,
            4..=6 => 1,
            7 => 2,
            8 => 3,
            _ => 4 + self.r.below(2),
        };
        VARS[i].to_string()
    }
    fn const_from(&mut self, pos: usize) -> Term {
        // 75%: a term that occurs in the data at that position; else any universe term
        if !self.data.is_empty() && self.r.chance(0.75) {
            let t = self.r.pick(self.data);
            return match pos {
                0 => t.subject().clone(),
                1 => t.predicate().clone(),
                _ => t.object().clone(),
            };
        }
        match pos {
            0 => self.r.pick(&self.u.subj).clone(),
            1 => self.r.pick(&self.u.pred).clone(),
            _ => self.r.pick(&self.u.obj).clone(),
        }
    }
    fn writable(&self, t: &Term) -> bool {
        match t {
            // a blank node label in a query is a variable, not a constant
            Term::BlankNode(_) => false,
            Term::Literal(l) if l.language().is_some() => self.caps.lang_const,
            Term::Literal(l) if !l.is_simple() => self.caps.typed_const,
            _ => true,
        }
    }
    fn pt(&mut self, pos: usize, p_var: f64) -> PT {
        if self.r.chance(p_var) {
            return PT::V(self.var());
        }
        for _ in 0..4 {
            let c = self.const_from(pos);
            if self.writable(&c) {
                return PT::C(c);
            }
        }
        PT::V(self.var())
    }
    fn tp(&mut self) -> TP {
        let mut t = TP { s: self.pt(0, 0.7), p: self.pt(1, 0.3), o: self.pt(2, 0.6) };
        // variables of one pattern are distinct unless repeated on purpose (below)
        for _ in 0..8 {
            let same = |a: &PT, b: &PT| matches!((a, b), (PT::V(x), PT::V(y)) if x == y);
            if same(&t.s, &t.p) || same(&t.p, &t.o) {
                t.p = PT::V(self.var());
            } else if same(&t.s, &t.o) {
                t.o = PT::V(self.var());
            } else {
                break;
            }
        }
        {
            let same = |a: &PT, b: &PT| matches!((a, b), (PT::V(x), PT::V(y)) if x == y);
            if same(&t.s, &t.p) || same(&t.p, &t.o) {
                t.p = PT::V("g".into());
            }
            if same(&t.s, &t.o) {
                t.o = PT::V("h".into());
            }
        }
        if self.r.chance(0.08) {
            // repeated variable inside one pattern
            let v = self.var();
            match self.r.below(3) {
                0 => {
                    t.s = PT::V(v.clone());
                    t.o = PT::V(v);
                }
                1 => {
                    t.s = PT::V(v.clone());
                    t.p = PT::V(v);
                }
                _ => {
                    t.p = PT::V(v.clone());
                    t.o = PT::V(v);
                }
            }
        }
        t
    }
    fn operand_const(&mut self) -> Ex {
        Ex::Num(self.r.pick(&["5", "7", "0", "1.5", "10", "-3", "6", "2.5"]).to_string())
    }
    fn atom(&mut self, vars: &[String]) -> Ex {
        let v = if vars.is_empty() || self.r.chance(0.07) { self.var() } else { self.r.pick(vars).clone() };
        if self.caps.bound && self.r.chance(0.25) {
            return Ex::Bound(v);
        }
        let op = *self.r.pick(&[Op::Eq, Op::Eq, Op::Ne, Op::Lt, Op::Le, Op::Gt, Op::Ge]);
        let rhs = self.operand_const();
        if self.r.chance(0.15) { Ex::Cmp(flip(op), Box::new(rhs), Box::new(Ex::Var(v))) } else { Ex::Cmp(op, Box::new(Ex::Var(v)), Box::new(rhs)) }
    }
    fn expr(&mut self, vars: &[String], depth: usize) -> Ex {
        if depth < 2 {
            match self.r.below(10) {
                0 => return Ex::Not(Box::new(self.expr(vars, depth + 1))),
                1 => return Ex::And(Box::new(self.expr(vars, depth + 1)), Box::new(self.expr(vars, depth + 1))),
                2 => return Ex::Or(Box::new(self.expr(vars, depth + 1)), Box::new(self.expr(vars, depth + 1))),
                _ => {}
            }
        }
        self.atom(vars)
    }
    fn group(&mut self, depth: usize, outer_vars: &[String]) -> Vec<El> {
        let mut g = Vec::new();
        let nt = 1 + self.r.below(self.budget.clamp(1, 3));
        for _ in 0..nt {
            if self.budget == 0 {
                break;
            }
            self.budget -= 1;
            let t = self.tp();
            g.push(El::T(t));
        }
        if depth < 2 {
            let mut tries = 0;
            while self.budget > 0 && tries < 2 {
                tries += 1;
                match self.r.below(10) {
                    0..=2 if self.caps.optional => {
                        let mut scope = outer_vars.to_vec();
                        group_vars(&g, &mut scope);
                        let inner = self.group(depth + 1, &scope);
                        g.push(El::Opt(inner));
                    }
                    3..=4 if self.caps.union && self.budget >= 2 => {
                        let a = self.group(depth + 1, &[]);
                        if self.budget == 0 {
                            g.extend(a);
                        } else {
                            let b = self.group(depth + 1, &[]);
                            g.push(El::Union(a, b));
                        }
                    }
                    _ => {}
                }
            }
        }
        if self.caps.filter && self.r.chance(0.4) {
            let mut vars = Vec::new();
            group_vars(&g, &mut vars);
            if depth > 0 && self.r.chance(0.3) {
                // inside OPTIONAL a filter may look at the variables of the left side
                vars.extend(outer_vars.iter().cloned());
            }
            let f = self.expr(&vars, 0);
            g.push(El::Filter(f));
        }
        if self.r.chance(0.12) {
            self.r.shuffle(&mut g);
        }
        g
    }
}
fn flip(op: Op) -> Op {
    match op {
        Op::Lt => Op::Gt,
        Op::Le => Op::Ge,
        Op::Gt => Op::Lt,
        Op::Ge => Op::Le,
        o => o,
    }
}

pub fn gen_query(r: &mut Rng, u: &Universe, data: &[Triple], caps: &Caps) -> Query {
    let budget = 1 + r.weighted(&[30, 35, 22, 13]);
    let mut g = Gen { r, u, data, budget, caps };
    let mut body = g.group(0, &[]);
    if count_tps(&body) == 0 {
        body.insert(0, El::T(TP { s: PT::V("a".into()), p: PT::V("b".into()), o: PT::V("c".into()) }));
    }
    let mut vars = Vec::new();
    group_vars(&body, &mut vars);
    vars.sort();
    let r = g.r;
    let mut q = Query { distinct: false, proj: None, agg: None, body, order: Vec::new(), limit: None, offset: None };
    if vars.is_empty() {
        // ground pattern: nothing to project, order or count by
        return q;
    }
    if caps.count && r.chance(0.15) {
        let v = r.pick(&vars).clone();
        let what = match r.below(3) {
            0 => AggWhat::Star,
            1 => AggWhat::Var(v),
            _ if caps.count_distinct => AggWhat::DistinctVar(v),
            _ => AggWhat::Star,
        };
        let group = if caps.group_by && r.chance(0.5) { Some(r.pick(&vars).clone()) } else { None };
        q.agg = Some(Agg { group, what });
        return q;
    }
    if r.chance(0.45) {
        let mut p = vars.clone();
        r.shuffle(&mut p);
        p.truncate(1 + r.below(p.len()));
        q.proj = Some(p);
    }
    q.distinct = caps.distinct && r.chance(0.25);
    let visible = q.proj.clone().unwrap_or(vars);
    if caps.order && r.chance(0.3) {
        let n = 1 + r.below(2.min(visible.len()));
        let mut ks = visible.clone();
        r.shuffle(&mut ks);
        ks.truncate(n);
        q.order = ks.into_iter().map(|v| (v, r.chance(0.3))).collect();
    }
    if caps.limit && r.chance(0.2) {
        q.limit = Some(r.below(6));
    }
    if caps.offset && r.chance(0.12) {
        q.offset = Some(r.below(4));
    }
    q
}

pub fn gen_update(r: &mut Rng, u: &Universe, data: &[Triple], caps: &Caps) -> Update {
    let ground = |r: &mut Rng| -> Triple {
        loop {
            let t = if !data.is_empty() && r.chance(0.5) {
                r.pick(data).clone()
            } else {
                Triple::new(r.pick(&u.subj).clone(), r.pick(&u.pred).clone(), r.pick(&u.obj).clone())
            };
            // blank node labels cannot be written as ground terms of the stored graph
            let ok = |x: &Term| match x {
                Term::BlankNode(_) => false,
                Term::Literal(l) if l.language().is_some() => caps.lang_const,
                Term::Literal(l) if !l.is_simple() => caps.typed_const,
                _ => true,
            };
            if ok(t.subject()) && ok(t.object()) {
                return t;
            }
        }
    };
    let mut kinds = Vec::new();
    if caps.insert_data {
        kinds.push(0);
    }
    if caps.delete_data {
        kinds.push(1);
    }
    if caps.delete_where {
        kinds.push(2);
        kinds.push(2);
    }
    if caps.clear {
        kinds.push(3);
    }
    match *r.pick(&kinds) {
        0 => Update::InsertData((0..1 + r.below(3)).map(|_| ground(r)).collect()),
        1 => Update::DeleteData((0..1 + r.below(3)).map(|_| ground(r)).collect()),
        2 => {
            let budget = 1 + r.below(2);
            let mut g = Gen { r, u, data, budget, caps };
            Update::DeleteWhere((0..budget).map(|_| g.tp()).collect())
        }
        _ => Update::Clear(if r.chance(0.5) { "DEFAULT" } else { "ALL" }),
    }
}

// ---------------------------------------------------------------------------------------
// shrinking
// ---------------------------------------------------------------------------------------

fn fresh_var(used: &[String]) -> String {
    for i in 0.. {
        let v = format!("z{i}");
        if !used.contains(&v) {
            return v;
        }
    }
    unreachable!()
}
fn ex_vars(e: &Ex, out: &mut Vec<String>) {
    match e {
        Ex::Var(v) | Ex::Bound(v) => out.push(v.clone()),
        Ex::Cmp(_, a, b) | Ex::And(a, b) | Ex::Or(a, b) => {
            ex_vars(a, out);
            ex_vars(b, out);
        }
        Ex::Not(a) => ex_vars(a, out),
        _ => {}
    }
}
fn all_var_occurrences(g: &[El], out: &mut Vec<String>) {
    for e in g {
        match e {
            El::T(t) => {
                for p in [&t.s, &t.p, &t.o] {
                    if let PT::V(v) = p {
                        out.push(v.clone());
                    }
                }
            }
            El::Opt(g) => all_var_occurrences(g, out),
            El::Union(a, b) => {
                all_var_occurrences(a, out);
                all_var_occurrences(b, out);
            }
            El::Filter(f) => ex_vars(f, out),
        }
    }
}

fn ex_variants(e: &Ex) -> Vec<Ex> {
    let mut v = Vec::new();
    match e {
        Ex::Not(a) => {
            if let Ex::Not(inner) = &**a {
                v.push((**inner).clone());
            }
            v.push((**a).clone());
            v.extend(ex_variants(a).into_iter().map(|x| Ex::Not(Box::new(x))));
        }
        Ex::And(a, b) | Ex::Or(a, b) => {
            v.push((**a).clone());
            v.push((**b).clone());
            let mk = |x: Ex, y: Ex| if matches!(e, Ex::And(..)) { Ex::And(Box::new(x), Box::new(y)) } else { Ex::Or(Box::new(x), Box::new(y)) };
            v.extend(ex_variants(a).into_iter().map(|x| mk(x, (**b).clone())));
            v.extend(ex_variants(b).into_iter().map(|y| mk((**a).clone(), y)));
        }
        Ex::Cmp(op, a, b) => {
            // canonical direction: variable on the left
            if !matches!(**a, Ex::Var(_)) && matches!(**b, Ex::Var(_)) {
                v.push(Ex::Cmp(flip(*op), b.clone(), a.clone()));
            }
        }
        _ => {}
    }
    v
}

/// all one-step simplifications of a group (each strictly smaller by a well-founded measure)
fn group_variants(g: &[El], used: &[String], multi: &BTreeSet<String>) -> Vec<Vec<El>> {
    let mut out = Vec::new();
    for i in 0..g.len() {
        // drop the element
        let mut d = g.to_vec();
        d.remove(i);
        out.push(d);
        let splice = |inner: &[El]| {
            let mut d = g.to_vec();
            d.splice(i..=i, inner.iter().cloned());
            d
        };
        let replace = |e: El| {
            let mut d = g.to_vec();
            d[i] = e;
            d
        };
        match &g[i] {
            El::T(t) => {
                for pos in 0..3 {
                    let cur = [&t.s, &t.p, &t.o][pos];
                    let generalise = match cur {
                        PT::C(_) => true,
                        PT::V(v) => multi.contains(v),
                    };
                    let set = |nv: PT| {
                        let mut t2 = t.clone();
                        match pos {
                            0 => t2.s = nv,
                            1 => t2.p = nv,
                            _ => t2.o = nv,
                        }
                        El::T(t2)
                    };
                    // well-founded: <none> (0) < variable occurring once (1) < shared variable
                    // or any other constant (2); every step goes strictly down
                    let none = iri("none");
                    let is_none = matches!(cur, PT::C(c) if *c == none);
                    if generalise && !is_none {
                        out.push(replace(set(PT::V(fresh_var(used)))));
                    }
                    // a position that only keeps the pattern from matching becomes the
                    // canonical IRI that occurs nowhere
                    if !is_none {
                        out.push(replace(set(PT::C(none))));
                    }
                }
            }
            El::Opt(inner) => {
                out.push(splice(inner));
                // a filter of the optional group moved to the enclosing group (different
                // meaning in general: kept only if the disagreement survives)
                for (j, e) in inner.iter().enumerate() {
                    if matches!(e, El::Filter(_)) {
                        let mut rest = inner.clone();
                        let f = rest.remove(j);
                        let mut d = g.to_vec();
                        d[i] = El::Opt(rest);
                        d.insert(i + 1, f);
                        out.push(d);
                    }
                }
                for v in group_variants(inner, used, multi) {
                    out.push(replace(El::Opt(v)));
                }
            }
            El::Union(a, b) => {
                out.push(splice(a));
                out.push(splice(b));
                for v in group_variants(a, used, multi) {
                    out.push(replace(El::Union(v, b.clone())));
                }
                for v in group_variants(b, used, multi) {
                    out.push(replace(El::Union(a.clone(), v)));
                }
            }
            El::Filter(f) => {
                for v in ex_variants(f) {
                    out.push(replace(El::Filter(v)));
                }
            }
        }
    }
    out
}

fn group_ok(g: &[El]) -> bool {
    // every (sub)group keeps at least one triple pattern, so the text stays in the fragment
    let mut has = false;
    for e in g {
        match e {
            El::T(_) => has = true,
            El::Opt(i) => {
                if !group_ok(i) {
                    return false;
                }
            }
            El::Union(a, b) => {
                if !group_ok(a) || !group_ok(b) {
                    return false;
                }
                has = true;
            }
            El::Filter(_) => {}
        }
    }
    has
}

fn query_variants(q: &Query) -> Vec<Query> {
    let mut out = Vec::new();
    let mut push = |f: &dyn Fn(&mut Query)| {
        let mut c = q.clone();
        f(&mut c);
        if c != *q {
            out.push(c);
        }
    };
    push(&|c| c.agg = None);
    push(&|c| {
        if let Some(a) = &mut c.agg {
            a.group = None
        }
    });
    push(&|c| {
        if let Some(a) = &mut c.agg {
            a.what = match &a.what {
                AggWhat::DistinctVar(v) => AggWhat::Var(v.clone()),
                _ => AggWhat::Star,
            }
        }
    });
    push(&|c| c.distinct = false);
    push(&|c| c.order.clear());
    push(&|c| {
        if c.order.len() > 1 {
            c.order.pop();
        }
    });
    push(&|c| {
        if c.order.len() > 1 {
            c.order.remove(0);
        }
    });
    push(&|c| {
        for k in &mut c.order {
            k.1 = false
        }
    });
    push(&|c| c.limit = None);
    push(&|c| c.offset = None);
    push(&|c| c.proj = None);
    if let Some(p) = &q.proj {
        if p.len() > 1 {
            for i in 0..p.len() {
                push(&|c| {
                    c.proj.as_mut().unwrap().remove(i);
                });
            }
        }
    }
    let mut occ = Vec::new();
    all_var_occurrences(&q.body, &mut occ);
    let mut used = occ.clone();
    used.sort();
    used.dedup();
    let multi: BTreeSet<String> = used.iter().filter(|v| occ.iter().filter(|x| x == v).count() > 1).cloned().collect();
    for b in group_variants(&q.body, &used, &multi) {
        if group_ok(&b) {
            let mut c = q.clone();
            c.body = b;
            // keep the query well-formed: modifiers may only name variables still in scope
            let mut vars = Vec::new();
            group_vars(&c.body, &mut vars);
            let ok = |v: &String| vars.contains(v);
            if c.proj.as_ref().is_some_and(|p| !p.iter().all(ok)) || !c.order.iter().all(|(v, _)| ok(v)) {
                continue;
            }
            if let Some(a) = &c.agg {
                let w = match &a.what {
                    AggWhat::Star => true,
                    AggWhat::Var(v) | AggWhat::DistinctVar(v) => ok(v),
                };
                if !w || a.group.as_ref().is_some_and(|g| !ok(g)) {
                    continue;
                }
            }
            out.push(c);
        }
    }
    out
}

pub struct Shrunk<C> {
    pub case: C,
    pub data: Vec<Triple>,
    pub mismatch: Mismatch,
    pub checks: usize,
}

fn shrink_data<C>(case: &C, data: &mut Vec<Triple>, last: &mut Mismatch, checks: &mut usize, budget: usize, test: &mut dyn FnMut(&C, &[Triple]) -> Outcome) -> bool {
    let mut progress = false;
    // halves first, then single triples
    let mut chunk = (data.len() / 2).max(1);
    loop {
        let mut i = 0;
        while i < data.len() && *checks < budget {
            let mut d = data.clone();
            let hi = (i + chunk).min(d.len());
            d.drain(i..hi);
            *checks += 1;
            if let Outcome::Mismatch(m) = test(case, &d) {
                *data = d;
                *last = m;
                progress = true;
            } else {
                i += chunk;
            }
        }
        if chunk == 1 || *checks >= budget {
            break;
        }
        chunk = (chunk / 2).max(1);
    }
    progress
}

pub fn shrink_query(eng: &mut Engine, q: &Query, data: &[Triple], first: Mismatch, budget: usize, tol: Tol) -> Shrunk<Query> {
    let mut q = q.clone();
    let mut data = data.to_vec();
    let mut last = first;
    let mut checks = 0usize;
    let mut test = |q: &Query, d: &[Triple]| check_query(eng, q, d, tol);
    loop {
        let mut progress = false;
        'again: loop {
            if checks >= budget {
                break;
            }
            for c in query_variants(&q) {
                checks += 1;
                if let Outcome::Mismatch(m) = test(&c, &data) {
                    q = c;
                    last = m;
                    progress = true;
                    continue 'again;
                }
                if checks >= budget {
                    break;
                }
            }
            break;
        }
        progress |= shrink_data(&q, &mut data, &mut last, &mut checks, budget, &mut test);
        if !progress || checks >= budget {
            break;
        }
    }
    Shrunk { case: q, data, mismatch: last, checks }
}

fn update_variants(u: &Update) -> Vec<Update> {
    let mut out = Vec::new();
    match u {
        Update::InsertData(ts) | Update::DeleteData(ts) => {
            if ts.len() > 1 {
                for i in 0..ts.len() {
                    let mut d = ts.clone();
                    d.remove(i);
                    out.push(if matches!(u, Update::InsertData(_)) { Update::InsertData(d) } else { Update::DeleteData(d) });
                }
            }
        }
        Update::DeleteWhere(ps) => {
            let g: Vec<El> = ps.iter().cloned().map(El::T).collect();
            let mut occ = Vec::new();
            all_var_occurrences(&g, &mut occ);
            let mut used = occ.clone();
            used.sort();
            used.dedup();
            let multi: BTreeSet<String> = used.iter().filter(|v| occ.iter().filter(|x| x == v).count() > 1).cloned().collect();
            for v in group_variants(&g, &used, &multi) {
                if !v.is_empty() {
                    out.push(Update::DeleteWhere(v.into_iter().filter_map(|e| if let El::T(t) = e { Some(t) } else { None }).collect()));
                }
            }
        }
        Update::Clear(_) => {}
    }
    out
}

pub fn shrink_update(eng: &mut Engine, u: &Update, data: &[Triple], first: Mismatch, budget: usize) -> Shrunk<Update> {
    let mut u = u.clone();
    let mut data = data.to_vec();
    let mut last = first;
    let mut checks = 0usize;
    let mut test = |u: &Update, d: &[Triple]| check_update(eng, u, d);
    loop {
        let mut progress = false;
        'again: loop {
            if checks >= budget {
                break;
            }
            for c in update_variants(&u) {
                checks += 1;
                if let Outcome::Mismatch(m) = test(&c, &data) {
                    u = c;
                    last = m;
                    progress = true;
                    continue 'again;
                }
            }
            break;
        }
        progress |= shrink_data(&u, &mut data, &mut last, &mut checks, budget, &mut test);
        if !progress || checks >= budget {
            break;
        }
    }
    Shrunk { case: u, data, mismatch: last, checks }
}

// ---------------------------------------------------------------------------------------
// skeletons (signatures)
// ---------------------------------------------------------------------------------------

fn ex_ops(e: &Ex, out: &mut BTreeSet<String>) {
    match e {
        Ex::Cmp(op, a, b) => {
            let o = match op {
                Op::Eq => "eq",
                Op::Ne => "ne",
                _ => "cmp",
            };
            let cls = |x: &Ex| match x {
                Ex::Var(_) => "var",
                Ex::Num(_) => "num",
                Ex::Const(Term::Iri(_)) => "iri",
                Ex::Const(_) => "str",
                _ => "expr",
            };
            let (l, r) = (cls(a), cls(b));
            let other = if l == "var" { r } else { l };
            out.insert(format!("{o}.{other}"));
        }
        Ex::Bound(_) => {
            out.insert("bound".into());
        }
        Ex::Not(a) => {
            out.insert("not".into());
            ex_ops(a, out);
        }
        Ex::And(a, b) => {
            out.insert("and".into());
            ex_ops(a, out);
            ex_ops(b, out);
        }
        Ex::Or(a, b) => {
            out.insert("or".into());
            ex_ops(a, out);
            ex_ops(b, out);
        }
        _ => {}
    }
}
#[derive(Default)]
struct Feat {
    tps: usize,
    repvar: bool,
    consts: BTreeSet<&'static str>,
    optional: bool,
    union: bool,
    nested: bool,
    fops: BTreeSet<String>,
    optfilter: bool,
}
fn tp_feat(t: &TP, f: &mut Feat) {
    f.tps += 1;
    let vs: Vec<&String> = [&t.s, &t.p, &t.o].iter().filter_map(|p| if let PT::V(v) = p { Some(v) } else { None }).collect();
    if vs.len() > vs.iter().collect::<BTreeSet<_>>().len() {
        f.repvar = true;
    }
    for p in [&t.s, &t.p, &t.o] {
        if let PT::C(c) = p {
            if !c.is_iri() {
                f.consts.insert(kind(c));
            }
        }
    }
}
fn group_feat(g: &[El], depth: usize, in_opt: bool, f: &mut Feat) {
    for e in g {
        match e {
            El::T(t) => tp_feat(t, f),
            El::Opt(i) => {
                f.optional = true;
                if depth >= 1 {
                    f.nested = true;
                }
                group_feat(i, depth + 1, true, f);
            }
            El::Union(a, b) => {
                f.union = true;
                if depth >= 1 {
                    f.nested = true;
                }
                group_feat(a, depth + 1, false, f);
                group_feat(b, depth + 1, false, f);
            }
            El::Filter(x) => {
                if in_opt {
                    // LeftJoin condition: which operators it uses is beside the point
                    f.optfilter = true;
                    continue;
                }
                let mut ops = BTreeSet::new();
                ex_ops(x, &mut ops);
                if ops.contains("and") || ops.contains("or") {
                    ops.retain(|o| matches!(o.as_str(), "and" | "or" | "not"));
                }
                f.fops.extend(ops);
            }
        }
    }
}
fn feat_parts(f: &Feat) -> Vec<String> {
    // one pattern, or several (how many exactly says nothing about the cause)
    let mut p = vec![if f.tps == 1 { "bgp1".to_string() } else { "bgpN".to_string() }];
    if f.repvar {
        p.push("repvar".into());
    }
    // the kind of a constant is the point only when the pattern stands alone (a multi-operator
    // witness keeps constants as selective matchers of incidental kind)
    if !f.consts.is_empty() && f.tps == 1 && !f.optional && !f.union && !f.optfilter && f.fops.is_empty() {
        p.push(format!("const[{}]", f.consts.iter().copied().collect::<Vec<_>>().join(",")));
    }
    if f.optional {
        p.push("optional".into());
    }
    if f.union {
        p.push("union".into());
    }
    if f.nested {
        p.push("nested".into());
    }
    if f.optfilter {
        p.push("optfilter".into());
    }
    if !f.fops.is_empty() {
        p.push(format!("filter[{}]", f.fops.iter().cloned().collect::<Vec<_>>().join(",")));
    }
    p
}
pub fn query_skeleton(q: &Query) -> String {
    let mut f = Feat::default();
    group_feat(&q.body, 0, false, &mut f);
    let mut p = feat_parts(&f);
    if let Some(a) = &q.agg {
        p.push(
            match a.what {
                AggWhat::Star => "count*",
                AggWhat::Var(_) => "count",
                AggWhat::DistinctVar(_) => "countdistinct",
            }
            .into(),
        );
        if a.group.is_some() {
            p.push("groupby".into());
        }
    }
    if q.distinct {
        p.push("distinct".into());
    }
    if q.proj.is_some() {
        p.push("proj".into());
    }
    if !q.order.is_empty() {
        p.push("order".into());
    }
    if q.limit.is_some() {
        p.push("limit".into());
    }
    if q.offset.is_some() {
        p.push("offset".into());
    }
    p.join("+")
}
pub fn update_skeleton(u: &Update, m: &Mismatch) -> String {
    let kinds = |ts: &[Triple]| {
        let mut k = BTreeSet::new();
        for t in ts {
            if t.subject().is_blank_node() {
                k.insert("blank-subject");
            }
            k.insert(kind(t.object()));
        }
        k.into_iter().collect::<Vec<_>>().join(",")
    };
    match u {
        Update::InsertData(ts) => format!("insert_data[{}]", kinds(ts)),
        Update::DeleteData(ts) => format!("delete_data[{}]", kinds(ts)),
        Update::Clear(w) => format!("clear_{}", w.to_lowercase()),
        Update::DeleteWhere(ps) => {
            let mut f = Feat::default();
            for p in ps {
                tp_feat(p, &mut f);
            }
            if ps.len() > 1 {
                // kinds of the constants are incidental once several patterns interact
                f.consts.clear();
            }
            let sk = feat_parts(&f).join("+");
            // one pattern of variables and IRIs: which kind of term fails to come back as itself
            // matters; with a literal constant left in the minimal pattern that constant is the
            // point; with several patterns the triples left over / lost are incidental
            if ps.len() == 1 && !m.triples.is_empty() && f.consts.is_empty() {
                format!("delete_where:{sk}|wrong[{}]", kinds(&m.triples))
            } else {
                format!("delete_where:{sk}")
            }
        }
    }
}

pub fn data_json(data: &[Triple]) -> J {
    json!(data.iter().map(nt).collect::<Vec<_>>())
}

// ---------------------------------------------------------------------------------------
// probe: which constructs does the front end accept at all?
// ---------------------------------------------------------------------------------------

pub fn probe(eng: &mut Engine) -> (Caps, Vec<String>) {
    let t = Triple::new(iri("a"), iri("p"), iri("b"));
    let mut rejected = Vec::new();
    let mut ask = |eng: &mut Engine, name: &str, text: &str| -> bool {
        eng.load(std::slice::from_ref(&t));
        match eng.run(text) {
            Ran::Rejected(e) => {
                rejected.push(format!("{name}: rejected by the front end ({e}); not generated"));
                false
            }
            _ => true,
        }
    };
    let mut c = Caps::default();
    c.optional = ask(eng, "OPTIONAL", "SELECT * WHERE { ?a <http://e/p> ?b . OPTIONAL { ?b <http://e/p> ?c . } }");
    c.union = ask(eng, "UNION", "SELECT * WHERE { { ?a <http://e/p> ?b . } UNION { ?a <http://e/q> ?b . } }");
    c.filter = ask(eng, "FILTER", "SELECT * WHERE { ?a ?b ?c . FILTER((?c > 5)) }");
    c.bound = ask(eng, "bound()", "SELECT * WHERE { ?a ?b ?c . FILTER((!bound(?c))) }");
    c.distinct = ask(eng, "DISTINCT", "SELECT DISTINCT ?a WHERE { ?a ?b ?c . }");
    c.order = ask(eng, "ORDER BY", "SELECT * WHERE { ?a ?b ?c . } ORDER BY DESC(?a) ?b");
    c.limit = ask(eng, "LIMIT", "SELECT * WHERE { ?a ?b ?c . } LIMIT 1");
    c.offset = ask(eng, "OFFSET", "SELECT * WHERE { ?a ?b ?c . } LIMIT 1 OFFSET 1");
    c.count = ask(eng, "COUNT", "SELECT (COUNT(*) AS ?cnt) WHERE { ?a ?b ?c . }");
    c.count_distinct = ask(eng, "COUNT(DISTINCT)", "SELECT (COUNT(DISTINCT ?a) AS ?cnt) WHERE { ?a ?b ?c . }");
    c.group_by = ask(eng, "GROUP BY", "SELECT ?a (COUNT(?b) AS ?cnt) WHERE { ?a ?b ?c . } GROUP BY ?a");
    c.insert_data = ask(eng, "INSERT DATA", "INSERT DATA { <http://e/a> <http://e/p> <http://e/c> . }");
    c.delete_data = ask(eng, "DELETE DATA", "DELETE DATA { <http://e/a> <http://e/p> <http://e/b> . }");
    c.delete_where = ask(eng, "DELETE WHERE", "DELETE WHERE { ?a <http://e/p> ?b . }");
    c.clear = ask(eng, "CLEAR", "CLEAR DEFAULT") && ask(eng, "CLEAR ALL", "CLEAR ALL");
    c.lang_const = ask(eng, "language-tagged constant", "SELECT * WHERE { ?a ?b \"x\"@en . }");
    c.typed_const = ask(eng, "typed constant", "SELECT * WHERE { ?a ?b \"5\"^^<http://www.w3.org/2001/XMLSchema#integer> . }");
    // constructs that are outside the generated fragment because the front end refuses them
    for (name, text) in [
        ("blank node label in INSERT DATA", "INSERT DATA { _:b <http://e/p> \"x\" . }"),
        ("projection of a variable that is not in the pattern", "SELECT ?zz WHERE { ?a ?b ?c . }"),
    ] {
        ask(eng, name, text);
    }
    (c, rejected)
}
