//! C08/C11 shared: query AST of the shared core, random query generator, canonical skeleton.

use super::graph::{EKEYS, LABELS, NKEYS, STRS, TYPES};
use crate::rng::Rng;
use crate::vals;
use grafeo_common::types::Value;
use std::collections::BTreeSet;

#[derive(Clone, Copy, Debug, PartialEq, Eq, Hash)]
pub enum Dir {
    Out,
    In,
    Both,
}

#[derive(Clone, Debug, PartialEq)]
pub struct NodePat {
    pub labels: Vec<String>,
}

#[derive(Clone, Debug, PartialEq)]
pub struct EdgePat {
    /// edge variable written in the pattern (needed when the edge is referenced)
    pub named: bool,
    pub types: Vec<String>,
    pub dir: Dir,
    /// variable length `*min..max` (max None = unbounded)
    pub len: Option<(u32, Option<u32>)>,
}

#[derive(Clone, Copy, Debug, PartialEq, Eq, Hash, PartialOrd, Ord)]
pub enum Var {
    N(usize),
    E(usize),
}

impl Var {
    pub fn name(self) -> String {
        match self {
            Var::N(i) => format!("n{i}"),
            Var::E(i) => format!("e{i}"),
        }
    }
}

#[derive(Clone, Copy, Debug, PartialEq, Eq, Hash)]
pub enum ArOp {
    Add,
    Sub,
    Mul,
}

#[derive(Clone, Debug, PartialEq)]
pub enum Term {
    Prop(Var, String),
    Const(Value),
    Ar(ArOp, Box<Term>, Box<Term>),
}

#[derive(Clone, Copy, Debug, PartialEq, Eq, Hash)]
pub enum CmpOp {
    Eq,
    Ne,
    Lt,
    Le,
    Gt,
    Ge,
}

#[derive(Clone, Copy, Debug, PartialEq, Eq, Hash)]
pub enum StrOp {
    Starts,
    Ends,
    Contains,
}

#[derive(Clone, Debug, PartialEq)]
pub enum Pred {
    Cmp(CmpOp, Term, Term),
    And(Box<Pred>, Box<Pred>),
    Or(Box<Pred>, Box<Pred>),
    /// `bare`: rendered without parentheses around a comparison operand (`NOT a = b`)
    Not(Box<Pred>, bool),
    /// IS NULL (false) / IS NOT NULL (true) on a term
    IsNull(Term, bool),
    /// (p) IS NULL on a predicate (used by C11)
    PredIsNull(Box<Pred>),
    In(Term, Vec<Value>),
    Str(StrOp, Term, String),
}

#[derive(Clone, Debug, PartialEq)]
pub enum Proj {
    Prop(Var, String),
    Id(Var),
    Type(usize),
    Labels(usize),
}

#[derive(Clone, Copy, Debug, PartialEq, Eq, Hash)]
pub enum AggFn {
    Count,
    Sum,
    Min,
    Max,
    Avg,
    Collect,
}

#[derive(Clone, Debug, PartialEq)]
pub enum AggArg {
    /// count(*)
    Star,
    /// count(n0)
    Var(Var),
    Prop(Var, String),
}

#[derive(Clone, Debug, PartialEq)]
pub struct Agg {
    pub f: AggFn,
    pub arg: AggArg,
    pub distinct: bool,
}

#[derive(Clone, Debug, PartialEq)]
pub enum Ret {
    Plain { items: Vec<Proj>, distinct: bool },
    Agg { keys: Vec<Proj>, aggs: Vec<Agg> },
}

#[derive(Clone, Debug, PartialEq)]
pub struct Order {
    /// index into the output columns (Plain: items; Agg: keys then aggs)
    pub col: usize,
    pub desc: bool,
}

#[derive(Clone, Debug, PartialEq)]
pub struct Query {
    pub nodes: Vec<NodePat>,
    pub edges: Vec<EdgePat>,
    pub pred: Option<Pred>,
    pub ret: Ret,
    pub order: Vec<Order>,
    pub skip: Option<u64>,
    pub limit: Option<u64>,
    /// Cypher only: ORDER BY/SKIP/LIMIT written in a WITH before RETURN (plain, non-distinct)
    pub order_in_with: bool,
}

impl Query {
    /// every node variable plus the named edge variables (what a pass-through WITH lists)
    pub fn used_vars_all(&self) -> Vec<Var> {
        let mut v: Vec<Var> = (0..self.nodes.len()).map(Var::N).collect();
        v.extend((0..self.edges.len()).filter(|i| self.edges[*i].named).map(Var::E));
        v
    }
    pub fn ncols(&self) -> usize {
        match &self.ret {
            Ret::Plain { items, .. } => items.len(),
            Ret::Agg { keys, aggs } => keys.len() + aggs.len(),
        }
    }
    pub fn is_agg(&self) -> bool {
        matches!(self.ret, Ret::Agg { .. })
    }
    /// variables referenced anywhere outside the pattern
    pub fn used_vars(&self) -> BTreeSet<Var> {
        let mut s = BTreeSet::new();
        if let Some(p) = &self.pred {
            pred_vars(p, &mut s);
        }
        match &self.ret {
            Ret::Plain { items, .. } => items.iter().for_each(|p| proj_vars(p, &mut s)),
            Ret::Agg { keys, aggs } => {
                keys.iter().for_each(|p| proj_vars(p, &mut s));
                for a in aggs {
                    match &a.arg {
                        AggArg::Star => {}
                        AggArg::Var(v) | AggArg::Prop(v, _) => {
                            s.insert(*v);
                        }
                    }
                }
            }
        }
        s
    }
    /// make `named` consistent with the references
    pub fn fix_names(&mut self) {
        let used = self.used_vars();
        for (i, e) in self.edges.iter_mut().enumerate() {
            e.named = used.contains(&Var::E(i)) && e.len.is_none();
        }
    }
    /// all references point at existing pattern elements, edges referenced are fixed-length
    pub fn well_formed(&self) -> bool {
        if self.nodes.len() != self.edges.len() + 1 || self.ncols() == 0 {
            return false;
        }
        for v in self.used_vars() {
            match v {
                Var::N(i) => {
                    if i >= self.nodes.len() {
                        return false;
                    }
                }
                Var::E(i) => {
                    if i >= self.edges.len() || self.edges[i].len.is_some() {
                        return false;
                    }
                }
            }
        }
        self.order.iter().all(|o| o.col < self.ncols())
    }
}

pub fn term_vars(t: &Term, s: &mut BTreeSet<Var>) {
    match t {
        Term::Prop(v, _) => {
            s.insert(*v);
        }
        Term::Const(_) => {}
        Term::Ar(_, a, b) => {
            term_vars(a, s);
            term_vars(b, s);
        }
    }
}
pub fn pred_vars(p: &Pred, s: &mut BTreeSet<Var>) {
    match p {
        Pred::Cmp(_, a, b) => {
            term_vars(a, s);
            term_vars(b, s);
        }
        Pred::And(a, b) | Pred::Or(a, b) => {
            pred_vars(a, s);
            pred_vars(b, s);
        }
        Pred::Not(a, _) | Pred::PredIsNull(a) => pred_vars(a, s),
        Pred::IsNull(t, _) | Pred::In(t, _) | Pred::Str(_, t, _) => term_vars(t, s),
    }
}
pub fn proj_vars(p: &Proj, s: &mut BTreeSet<Var>) {
    match p {
        Proj::Prop(v, _) | Proj::Id(v) => {
            s.insert(*v);
        }
        Proj::Type(i) => {
            s.insert(Var::E(*i));
        }
        Proj::Labels(i) => {
            s.insert(Var::N(*i));
        }
    }
}

// ------------------------------------------------------------------ generator

pub struct GenCfg {
    pub max_hops: usize,
    /// probability of each "known-polluted" feature (kept low so the rest gets exercised)
    pub p_distinct: f64,
    pub p_agg: f64,
    pub p_order: f64,
    pub p_window: f64,
    pub p_varlen: f64,
    pub p_pred: f64,
}

impl Default for GenCfg {
    fn default() -> Self {
        GenCfg { max_hops: 3, p_distinct: 0.12, p_agg: 0.25, p_order: 0.3, p_window: 0.2, p_varlen: 0.12, p_pred: 0.7 }
    }
}

fn keys_of(v: Var) -> &'static [&'static str] {
    match v {
        Var::N(_) => &["uid", "k", "k", "f", "s", "b"],
        Var::E(_) => &["uid", "w", "w", "t"],
    }
}

/// keys usable in predicates: edge predicates avoid `uid` (also a node key, see C08-F27)
fn pred_keys_of(v: Var) -> &'static [&'static str] {
    match v {
        Var::N(_) => &["uid", "k", "k", "f", "s", "b"],
        Var::E(_) => &["w", "w", "t"],
    }
}

fn gen_pred_prop(r: &mut Rng, q: &Query) -> (Var, String) {
    let v = pick_var(r, q);
    (v, (*r.pick(pred_keys_of(v))).to_string())
}

fn const_for(r: &mut Rng, key: &str) -> Value {
    match key {
        "uid" => Value::Int64(r.range(1, 8)),
        "k" => match r.below(10) {
            0 => Value::Float64(r.range(-2, 4) as f64 + 0.5),
            1 => Value::Float64(r.range(-1, 3) as f64),
            2 => vals::s(*r.pick(&STRS)),
            _ => Value::Int64(r.range(-2, 5)),
        },
        "f" => match r.below(4) {
            0 => Value::Int64(r.range(-1, 3)),
            _ => Value::Float64(r.range(-2, 6) as f64 / 2.0),
        },
        "w" => match r.below(5) {
            0 => Value::Float64(r.range(0, 3) as f64 + 0.5),
            _ => Value::Int64(r.range(0, 4)),
        },
        "b" => Value::Bool(r.chance(0.5)),
        _ => vals::s(*r.pick(&STRS)),
    }
}

fn pick_var(r: &mut Rng, q: &Query) -> Var {
    let evars: Vec<usize> = (0..q.edges.len()).filter(|i| q.edges[*i].len.is_none()).collect();
    if !evars.is_empty() && r.chance(0.25) { Var::E(*r.pick(&evars)) } else { Var::N(r.below(q.nodes.len())) }
}

fn gen_prop(r: &mut Rng, q: &Query) -> (Var, String) {
    let v = pick_var(r, q);
    (v, (*r.pick(keys_of(v))).to_string())
}

fn numeric_key(k: &str) -> bool {
    matches!(k, "uid" | "k" | "f" | "w")
}

fn gen_term(r: &mut Rng, q: &Query, depth: u32) -> (Term, String) {
    let (v, k) = gen_pred_prop(r, q);
    let base = Term::Prop(v, k.clone());
    if depth > 0 && numeric_key(&k) && r.chance(0.2) {
        // small constants only: no overflow, no division (C12's business)
        let c = Term::Const(Value::Int64(r.range(0, 3)));
        let op = *r.pick(&[ArOp::Add, ArOp::Sub, ArOp::Mul]);
        let t = if r.chance(0.8) { Term::Ar(op, Box::new(base), Box::new(c)) } else { Term::Ar(op, Box::new(c), Box::new(base)) };
        return (t, k);
    }
    (base, k)
}

pub fn gen_atom(r: &mut Rng, q: &Query) -> Pred {
    match r.below(100) {
        0..=54 => {
            let (t, k) = gen_term(r, q, 1);
            let op = *r.pick(&[CmpOp::Eq, CmpOp::Eq, CmpOp::Ne, CmpOp::Lt, CmpOp::Le, CmpOp::Gt, CmpOp::Ge]);
            let rhs = if r.chance(0.12) {
                let (v2, k2) = gen_pred_prop(r, q);
                Term::Prop(v2, k2)
            } else if r.chance(0.03) {
                Term::Const(Value::Null)
            } else {
                let mut c = const_for(r, &k);
                // ordering of booleans is left alone (no bool constants under < <= > >=)
                if matches!(c, Value::Bool(_)) && !matches!(op, CmpOp::Eq | CmpOp::Ne) {
                    c = Value::Int64(1);
                }
                Term::Const(c)
            };
            Pred::Cmp(op, t, rhs)
        }
        55..=69 => {
            let d = if r.chance(0.1) { 1 } else { 0 };
            let (t, _) = gen_term(r, q, d);
            Pred::IsNull(t, r.chance(0.5))
        }
        70..=81 => {
            let (v, k) = gen_pred_prop(r, q);
            let n = 1 + r.below(3);
            let mut list: Vec<Value> = (0..n).map(|_| const_for(r, &k)).collect();
            if r.chance(0.15) {
                list.push(vals::s("a"));
            }
            Pred::In(Term::Prop(v, k), list)
        }
        _ => {
            let v = pick_var(r, q);
            let k = if r.chance(0.8) { "s" } else { "k" };
            let k = match (v, k) {
                (Var::E(_), "k") => "w",
                (Var::E(_), _) => "t",
                (_, k) => k,
            };
            let op = *r.pick(&[StrOp::Starts, StrOp::Ends, StrOp::Contains]);
            Pred::Str(op, Term::Prop(v, k.to_string()), (*r.pick(&["a", "b", "ab", ""])).to_string())
        }
    }
}

/// Sharpen the comparisons of a predicate against the graph it will run on: a node property
/// compared with a constant gets, with some probability, a literal at / just inside / just
/// outside the store-wide minimum or maximum of that key (the zone map's bounds), and is
/// written literal-first (`5 <= n.k`) half of the time.
pub fn sharpen_pred(p: &mut Pred, bounds: &dyn Fn(&str) -> Option<(Value, Value)>, r: &mut Rng) {
    match p {
        Pred::And(a, b) | Pred::Or(a, b) => {
            sharpen_pred(a, bounds, r);
            sharpen_pred(b, bounds, r);
        }
        Pred::Not(a, _) | Pred::PredIsNull(a) => sharpen_pred(a, bounds, r),
        Pred::Cmp(op, Term::Prop(v @ Var::N(_), k), Term::Const(c)) => {
            let mut c2 = c.clone();
            if r.chance(0.6) {
                if let Some((lo, hi)) = bounds(k) {
                    let step = |v: &Value, d: i64| match v {
                        Value::Int64(i) => Value::Int64(i + d),
                        Value::Float64(f) => Value::Float64(f + d as f64 * 0.5),
                        other => other.clone(),
                    };
                    c2 = match r.below(6) {
                        0 => lo,
                        1 => hi,
                        2 => step(&lo, 1),
                        3 => step(&hi, -1),
                        4 => step(&lo, -1),
                        _ => step(&hi, 1),
                    };
                }
            }
            let (op, v, k) = (*op, *v, k.clone());
            *p = if r.chance(0.5) { Pred::Cmp(op, Term::Const(c2), Term::Prop(v, k)) } else { Pred::Cmp(op, Term::Prop(v, k), Term::Const(c2)) };
        }
        _ => {}
    }
}

pub fn gen_pred(r: &mut Rng, q: &Query, depth: u32) -> Pred {
    if depth == 0 || r.chance(0.45) {
        return gen_atom(r, q);
    }
    match r.below(10) {
        0..=3 => Pred::And(Box::new(gen_pred(r, q, depth - 1)), Box::new(gen_pred(r, q, depth - 1))),
        4..=6 => Pred::Or(Box::new(gen_pred(r, q, depth - 1)), Box::new(gen_pred(r, q, depth - 1))),
        _ => {
            let inner = gen_pred(r, q, depth - 1);
            let bare = matches!(inner, Pred::Cmp(..)) && r.chance(0.25);
            Pred::Not(Box::new(inner), bare)
        }
    }
}

fn gen_proj(r: &mut Rng, q: &Query) -> Proj {
    match r.below(20) {
        0 => Proj::Id(pick_var(r, q)),
        1 => Proj::Labels(r.below(q.nodes.len())),
        2 => {
            let ev: Vec<usize> = (0..q.edges.len()).filter(|i| q.edges[*i].len.is_none()).collect();
            if ev.is_empty() { Proj::Prop(Var::N(0), "uid".into()) } else { Proj::Type(*r.pick(&ev)) }
        }
        3..=8 => Proj::Prop(pick_var(r, q), "uid".into()),
        _ => {
            let (v, k) = gen_prop(r, q);
            Proj::Prop(v, k)
        }
    }
}

pub fn gen_pattern(r: &mut Rng, cfg: &GenCfg) -> (Vec<NodePat>, Vec<EdgePat>) {
    let hops = r.weighted(&[3, 5, 3, 1]).min(cfg.max_hops);
    let mut nodes = Vec::new();
    let mut edges = Vec::new();
    let node = |r: &mut Rng| {
        let labels = match r.below(20) {
            0..=8 => vec![],
            9 => vec![LABELS[0].to_string(), LABELS[1].to_string()],
            _ => vec![LABELS[r.weighted(&[5, 3, 1])].to_string()],
        };
        NodePat { labels }
    };
    nodes.push(node(r));
    let mut varlen_used = false;
    for _ in 0..hops {
        let types = match r.below(20) {
            0..=8 => vec![],
            9 => vec!["R".to_string(), "S".to_string()],
            _ => vec![TYPES[r.weighted(&[3, 1])].to_string()],
        };
        let dir = *r.pick(&[Dir::Out, Dir::Out, Dir::Out, Dir::In, Dir::In, Dir::Both]);
        let len = if !varlen_used && r.chance(cfg.p_varlen) {
            varlen_used = true;
            let lo = r.weighted(&[1, 8, 3]) as u32;
            let hi = lo + r.below(3) as u32;
            Some((lo, Some(hi.clamp(1, 3))))
        } else {
            None
        };
        edges.push(EdgePat { named: false, types, dir, len });
        nodes.push(node(r));
    }
    (nodes, edges)
}

pub fn gen_query(r: &mut Rng, cfg: &GenCfg) -> Query {
    let (nodes, edges) = gen_pattern(r, cfg);
    let mut q = Query { nodes, edges, pred: None, ret: Ret::Plain { items: vec![], distinct: false }, order: vec![], skip: None, limit: None, order_in_with: false };
    if r.chance(cfg.p_pred) {
        q.pred = Some(gen_pred(r, &q, 2));
    }
    if r.chance(cfg.p_agg) {
        let nk = r.weighted(&[5, 4, 1]);
        let keys: Vec<Proj> = (0..nk)
            .map(|_| {
                let (v, k) = gen_prop(r, &q);
                // group keys with few distinct values
                let k = if k == "uid" && r.chance(0.7) { if matches!(v, Var::E(_)) { "w".to_string() } else { "k".to_string() } } else { k };
                Proj::Prop(v, k)
            })
            .collect();
        let na = 1 + r.weighted(&[6, 3, 1]);
        let aggs: Vec<Agg> = (0..na)
            .map(|_| {
                let f = *r.pick(&[AggFn::Count, AggFn::Count, AggFn::Sum, AggFn::Min, AggFn::Max, AggFn::Avg, AggFn::Collect]);
                let arg = if f == AggFn::Count {
                    match r.below(10) {
                        0 => AggArg::Star,
                        1..=5 => AggArg::Var(pick_var(r, &q)),
                        _ => {
                            let (v, k) = gen_prop(r, &q);
                            AggArg::Prop(v, k)
                        }
                    }
                } else {
                    let v = pick_var(r, &q);
                    let ks: &[&str] = match (v, f) {
                        (Var::N(_), AggFn::Sum | AggFn::Avg) => &["k", "f", "uid", "k"],
                        (Var::N(_), _) => &["k", "f", "uid", "s", "b"],
                        (Var::E(_), AggFn::Sum | AggFn::Avg) => &["w", "uid"],
                        (Var::E(_), _) => &["w", "uid", "t"],
                    };
                    AggArg::Prop(v, (*r.pick(ks)).to_string())
                };
                let distinct = !matches!(arg, AggArg::Star | AggArg::Var(_)) && r.chance(0.12);
                Agg { f, arg, distinct }
            })
            .collect();
        q.ret = Ret::Agg { keys, aggs };
    } else {
        let n = 1 + r.weighted(&[4, 4, 2]);
        let items: Vec<Proj> = (0..n).map(|_| gen_proj(r, &q)).collect();
        q.ret = Ret::Plain { items, distinct: r.chance(cfg.p_distinct) };
    }
    gen_tail(r, cfg, &mut q);
    q.fix_names();
    q
}

/// one atom Gremlin and GraphQL can both express: node property compared with a constant
fn simple_atom(r: &mut Rng, nnodes: usize, graphql: bool) -> Pred {
    let v = Var::N(r.below(nnodes));
    let k = (*r.pick(&["uid", "k", "k", "f", "s", "b"])).to_string();
    let t = Term::Prop(v, k.clone());
    match r.below(10) {
        0..=5 => {
            let op = *r.pick(&[CmpOp::Eq, CmpOp::Ne, CmpOp::Lt, CmpOp::Le, CmpOp::Gt, CmpOp::Ge]);
            let mut c = const_for(r, &k);
            if matches!(c, Value::Bool(_)) && !matches!(op, CmpOp::Eq | CmpOp::Ne) {
                c = Value::Int64(1);
            }
            Pred::Cmp(op, t, Term::Const(c))
        }
        6 | 7 => {
            let n = 1 + r.below(3);
            let list: Vec<Value> = (0..n).map(|_| const_for(r, &k)).collect();
            let p = Pred::In(t, list);
            if !graphql && r.chance(0.3) { Pred::Not(Box::new(p), false) } else { p }
        }
        8 if !graphql => Pred::IsNull(t, r.chance(0.5)),
        _ => Pred::Str(*r.pick(&[StrOp::Starts, StrOp::Ends, StrOp::Contains]), Term::Prop(v, if r.chance(0.8) { "s".into() } else { "k".into() }), (*r.pick(&["a", "b", "ab", ""])).to_string()),
    }
}

/// a query inside the subset Gremlin can express
pub fn gen_gremlin_query(r: &mut Rng) -> Query {
    let hops = r.weighted(&[3, 5, 3, 1]);
    let node = |r: &mut Rng| NodePat {
        labels: match r.below(20) {
            0..=9 => vec![],
            10 => vec![LABELS[0].to_string(), LABELS[1].to_string()],
            _ => vec![LABELS[r.weighted(&[5, 3, 1])].to_string()],
        },
    };
    let mut q = Query { nodes: vec![node(r)], edges: vec![], pred: None, ret: Ret::Plain { items: vec![], distinct: false }, order: vec![], skip: None, limit: None, order_in_with: false };
    for _ in 0..hops {
        let types = if r.chance(0.5) { vec![] } else { vec![TYPES[r.weighted(&[3, 1])].to_string()] };
        q.edges.push(EdgePat { named: false, types, dir: *r.pick(&[Dir::Out, Dir::Out, Dir::In, Dir::Both]), len: None });
        q.nodes.push(node(r));
    }
    let last = q.nodes.len() - 1;
    let natoms = r.weighted(&[3, 4, 2, 1]);
    let atoms: Vec<Pred> = (0..natoms).map(|_| simple_atom(r, q.nodes.len(), false)).collect();
    q.pred = atoms.into_iter().reduce(|a, b| Pred::And(Box::new(a), Box::new(b)));
    let key = (*r.pick(&["uid", "uid", "k", "f", "s", "b"])).to_string();
    if r.chance(0.3) {
        let f = *r.pick(&[AggFn::Count, AggFn::Count, AggFn::Sum, AggFn::Min, AggFn::Max, AggFn::Avg, AggFn::Collect]);
        let arg = if f == AggFn::Count { if r.chance(0.3) { AggArg::Star } else { AggArg::Var(Var::N(last)) } } else { AggArg::Prop(Var::N(last), key) };
        q.ret = Ret::Agg { keys: vec![], aggs: vec![Agg { f, arg, distinct: f != AggFn::Count && r.chance(0.15) }] };
    } else {
        let item = match r.below(12) {
            0 => Proj::Id(Var::N(last)),
            1 => Proj::Labels(last),
            _ => Proj::Prop(Var::N(last), key),
        };
        let orderable = matches!(item, Proj::Prop(..));
        q.ret = Ret::Plain { items: vec![item], distinct: r.chance(0.2) };
        if orderable && r.chance(0.35) {
            q.order.push(Order { col: 0, desc: r.chance(0.4) });
        }
        if r.chance(0.25) {
            if r.chance(0.6) {
                q.skip = Some(*r.pick(&[0u64, 1, 1, 2, 3]));
            }
            if q.skip.is_none() || r.chance(0.7) {
                q.limit = Some(*r.pick(&[0u64, 1, 2, 3, 5]));
            }
        }
    }
    q
}

/// a query inside the subset GraphQL can express
pub fn gen_graphql_query(r: &mut Rng) -> Query {
    let hops = r.weighted(&[4, 5, 2]);
    let mut q = Query {
        nodes: vec![NodePat { labels: vec![LABELS[r.weighted(&[5, 3, 1])].to_string()] }],
        edges: vec![],
        pred: None,
        ret: Ret::Plain { items: vec![], distinct: false },
        order: vec![],
        skip: None,
        limit: None,
        order_in_with: false,
    };
    for _ in 0..hops {
        q.edges.push(EdgePat { named: false, types: vec![TYPES[r.weighted(&[3, 1])].to_string()], dir: Dir::Out, len: None });
        q.nodes.push(NodePat { labels: vec![] });
    }
    let natoms = r.weighted(&[3, 4, 2, 1]);
    let atoms: Vec<Pred> = (0..natoms).map(|_| simple_atom(r, q.nodes.len(), true)).collect();
    q.pred = atoms.into_iter().reduce(|a, b| Pred::And(Box::new(a), Box::new(b)));
    let n = 1 + r.weighted(&[4, 4, 2]);
    let items: Vec<Proj> = (0..n).map(|_| Proj::Prop(Var::N(r.below(q.nodes.len())), (*r.pick(&["uid", "uid", "k", "f", "s", "b"])).to_string())).collect();
    let root_cols: Vec<usize> = (0..items.len()).filter(|i| matches!(items[*i], Proj::Prop(Var::N(0), _))).collect();
    q.ret = Ret::Plain { items, distinct: false };
    if !root_cols.is_empty() && r.chance(0.15) {
        q.order.push(Order { col: *r.pick(&root_cols), desc: r.chance(0.4) });
    }
    if r.chance(0.25) {
        if r.chance(0.6) {
            q.skip = Some(*r.pick(&[0u64, 1, 1, 2, 3]));
        }
        if q.skip.is_none() || r.chance(0.7) {
            q.limit = Some(*r.pick(&[0u64, 1, 2, 3, 5]));
        }
    }
    q
}

/// ORDER BY / SKIP / LIMIT. With SKIP/LIMIT the order (if any) ends in uid columns of every
/// variable so that ties are only between identical rows.
pub fn gen_tail(r: &mut Rng, cfg: &GenCfg, q: &mut Query) {
    let ncols = q.ncols();
    let orderable: Vec<usize> = match &q.ret {
        Ret::Plain { items, .. } => (0..items.len()).filter(|i| matches!(items[*i], Proj::Prop(..))).collect(),
        Ret::Agg { keys, aggs } => (keys.len()..keys.len() + aggs.len()).filter(|i| aggs[*i - keys.len()].f != AggFn::Collect).collect(),
    };
    if !orderable.is_empty() && r.chance(cfg.p_order) {
        let n = 1 + r.weighted(&[7, 3]);
        for _ in 0..n {
            let col = *r.pick(&orderable);
            if !q.order.iter().any(|o| o.col == col) {
                q.order.push(Order { col, desc: r.chance(0.4) });
            }
        }
    }
    if r.chance(cfg.p_window) {
        if r.chance(0.6) {
            q.skip = Some(*r.pick(&[0u64, 1, 1, 2, 3, 7]));
        }
        if q.skip.is_none() || r.chance(0.7) {
            q.limit = Some(*r.pick(&[0u64, 1, 1, 2, 3, 5, 10]));
        }
    }
    let _ = ncols;
    q.order_in_with = r.chance(0.7);
}

// ------------------------------------------------------------------ skeleton

/// Canonical skeleton: the sorted set of constructs present, identifiers and constants
/// abstracted. Used (after shrinking) inside signatures.
pub fn skeleton(q: &Query, cypher: bool) -> String {
    let mut f: BTreeSet<String> = BTreeSet::new();
    f.insert(format!("hops{}", q.edges.len()));
    for (i, n) in q.nodes.iter().enumerate() {
        // label on the first node = label scan; on a later node = filter after the expand
        let sfx = if i == 0 { "0" } else { "" };
        match n.labels.len() {
            0 => {}
            1 => {
                f.insert(format!("label{sfx}"));
            }
            _ => {
                f.insert(format!("label{sfx}_x2"));
            }
        }
    }
    for e in &q.edges {
        match e.types.len() {
            0 => {}
            1 => {
                f.insert("type".into());
            }
            _ => {
                f.insert("type2".into());
            }
        }
        match e.dir {
            Dir::Out => {}
            Dir::In => {
                f.insert("dir_in".into());
            }
            Dir::Both => {
                f.insert("dir_both".into());
            }
        }
        if let Some((lo, hi)) = e.len {
            f.insert(match (lo, hi) {
                (0, _) => "varlen0".to_string(),
                (_, None) => "varlen_unbounded".to_string(),
                _ => "varlen".to_string(),
            });
        }
    }
    if let Some(p) = &q.pred {
        pred_feats(p, &mut f);
    }
    match &q.ret {
        Ret::Plain { items, distinct } => {
            if *distinct {
                f.insert("distinct".into());
            }
            for p in items {
                f.insert(proj_feat(p));
            }
        }
        Ret::Agg { keys, aggs } => {
            if !keys.is_empty() {
                f.insert("group".into());
            }
            for a in aggs {
                let n = format!("{:?}", a.f).to_lowercase();
                // the property's kind of values matters for aggregates (uid: int, f: float, ...)
                let arg = match &a.arg {
                    AggArg::Star => "*",
                    AggArg::Var(_) => "var",
                    AggArg::Prop(_, k) => match k.as_str() {
                        "uid" => "int",
                        "k" => "mixed",
                        "f" => "float",
                        "w" => "num",
                        "s" | "t" => "str",
                        "b" => "bool",
                        _ => "prop",
                    },
                };
                f.insert(format!("agg:{n}({}{arg})", if a.distinct { "distinct " } else { "" }));
            }
        }
    }
    if !q.order.is_empty() {
        f.insert(if q.order.iter().any(|o| o.desc) { "order_desc".into() } else { "order".into() });
    }
    if cypher && q.order_in_with && !q.is_agg() && !matches!(q.ret, Ret::Plain { distinct: true, .. }) && (!q.order.is_empty() || q.skip.is_some() || q.limit.is_some()) {
        f.insert("tail_in_with".into());
    }
    if q.skip.is_some() {
        f.insert("skip".into());
    }
    if q.limit.is_some() {
        f.insert("limit".into());
    }
    f.into_iter().collect::<Vec<_>>().join(",")
}

fn proj_feat(p: &Proj) -> String {
    match p {
        Proj::Prop(Var::N(_), _) => "ret:prop".into(),
        Proj::Prop(Var::E(_), _) => "ret:eprop".into(),
        Proj::Id(_) => "ret:id".into(),
        Proj::Type(_) => "ret:type".into(),
        Proj::Labels(_) => "ret:labels".into(),
    }
}

fn term_feats(t: &Term, f: &mut BTreeSet<String>) {
    match t {
        Term::Prop(Var::E(_), _) => {
            f.insert("epred".into());
        }
        Term::Prop(..) => {}
        Term::Const(Value::Null) => {
            f.insert("null_literal".into());
        }
        Term::Const(_) => {}
        Term::Ar(_, a, b) => {
            f.insert("arith".into());
            term_feats(a, f);
            term_feats(b, f);
        }
    }
}

pub fn pred_feats(p: &Pred, f: &mut BTreeSet<String>) {
    match p {
        Pred::Cmp(op, a, b) => {
            if matches!((a, b), (Term::Const(_), Term::Prop(..))) {
                f.insert("lit_left".into());
            }
            f.insert(match op {
                CmpOp::Eq | CmpOp::Ne => "cmp_eq".to_string(),
                _ => "cmp_ord".to_string(),
            });
            term_feats(a, f);
            term_feats(b, f);
        }
        Pred::And(a, b) => {
            f.insert("and".into());
            pred_feats(a, f);
            pred_feats(b, f);
        }
        Pred::Or(a, b) => {
            f.insert("or".into());
            pred_feats(a, f);
            pred_feats(b, f);
        }
        Pred::Not(a, bare) => {
            f.insert(if *bare { "not_bare".into() } else { "not".into() });
            pred_feats(a, f);
        }
        Pred::IsNull(t, _) => {
            f.insert("is_null".into());
            term_feats(t, f);
        }
        Pred::PredIsNull(a) => {
            f.insert("pred_is_null".into());
            pred_feats(a, f);
        }
        Pred::In(t, _) => {
            f.insert("in_list".into());
            term_feats(t, f);
        }
        Pred::Str(_, t, _) => {
            f.insert("strop".into());
            term_feats(t, f);
        }
    }
}

#[allow(dead_code)]
pub fn all_keys() -> Vec<&'static str> {
    NKEYS.iter().chain(EKEYS.iter()).copied().collect()
}
