//! C12 corpus for GQL and Cypher (shared pattern/expression grammar, dialect switches).

use super::super::{Input, L_CYPHER};
use super::{chain, nest, wrap, Nest, EXTREME_NUMS};
use crate::rng::Rng;

pub const FUNCS: [&str; 64] = [
    "id", "labels", "type", "size", "length", "coalesce", "exists", "tostring", "toString", "tointeger", "toInteger", "toint", "tofloat", "toFloat",
    "toboolean", "toBoolean", "tobool", "haslabel", "head", "tail", "last", "reverse", "vector", "cosine_similarity", "euclidean_distance",
    "dot_product", "manhattan_distance", "abs", "ceil", "floor", "round", "sign", "sqrt", "exp", "log", "log10", "rand", "range", "keys", "nodes",
    "relationships", "properties", "substring", "left", "right", "trim", "ltrim", "rtrim", "replace", "split", "toUpper", "toLower", "upper",
    "lower", "count", "sum", "avg", "min", "max", "collect", "stdev", "percentile_cont", "timestamp", "nosuchfunction",
];
const LABELS: [&str; 8] = ["Person", "City", "Company", "Thing", "Employee", "K", "User", "Nope"];
const TYPES: [&str; 5] = ["KNOWS", "LIVES_IN", "WORKS_AT", "REL", "NOPE"];
const PROPS: [&str; 14] = ["name", "age", "score", "active", "id", "tags", "meta", "vec", "city", "data", "ts", "since", "weight", "nope"];
const STRS: [&str; 12] = ["'Alice'", "''", "'a'", "\"b\"", "'x\\'y'", "'%'", "'.*'", "'(a+)+$'", "'Zo'", "'1'", "'true'", "'\\\\'"];

fn num(r: &mut Rng) -> String {
    match r.below(8) {
        0..=3 => r.range(-3, 40).to_string(),
        4 => format!("{}.{}", r.range(0, 99), r.below(100)),
        5 => (*r.pick(&["9223372036854775807", "-9223372036854775808", "9223372036854775806", "4611686018427387904", "0", "-1", "1e308", "0.0"])).to_string(),
        _ => (*r.pick(&EXTREME_NUMS)).to_string(),
    }
}

fn lit(r: &mut Rng, cy: bool, d: u32) -> String {
    match r.below(if d == 0 { 7 } else { 9 }) {
        0..=1 => num(r),
        2 => (*r.pick(&STRS)).to_string(),
        3 => (*r.pick(&["true", "false", "TRUE", "null", "NULL"])).to_string(),
        4 => "$p".to_string(),
        5 => format!("${}", r.pick(&super::super::PARAM_NAMES)),
        6 => num(r),
        7 => {
            let n = r.below(4);
            format!("[{}]", (0..n).map(|_| lit(r, cy, d - 1)).collect::<Vec<_>>().join(", "))
        }
        _ => {
            if cy {
                let n = r.below(3);
                format!("{{{}}}", (0..n).map(|i| format!("k{i}: {}", lit(r, cy, d - 1))).collect::<Vec<_>>().join(", "))
            } else {
                lit(r, cy, 0)
            }
        }
    }
}

pub fn expr(r: &mut Rng, cy: bool, vars: &[&str], d: u32) -> String {
    if d == 0 || r.chance(0.25) {
        return match r.below(4) {
            0 => lit(r, cy, 1),
            1 if !vars.is_empty() => (*r.pick(vars)).to_string(),
            _ if !vars.is_empty() => format!("{}.{}", r.pick(vars), r.pick(&PROPS)),
            _ => lit(r, cy, 1),
        };
    }
    let e = |r: &mut Rng| expr(r, cy, vars, d - 1);
    match r.below(if cy { 22 } else { 15 }) {
        0 => format!("{} {} {}", e(r), r.pick(&["+", "-", "*", "/", "%"]), e(r)),
        1 => format!("{} {} {}", e(r), r.pick(&["=", "<>", "<", "<=", ">", ">="]), e(r)),
        2 => format!("{} {} {}", e(r), r.pick(&["AND", "OR", "and", "Or"]), e(r)),
        3 => format!("NOT {}", e(r)),
        4 => format!("-{}", e(r)),
        5 => format!("({})", e(r)),
        6 => format!("{} {} {}", e(r), r.pick(&["STARTS WITH", "ENDS WITH", "CONTAINS"]), e(r)),
        7 => {
            let n = r.below(4);
            format!("{}({})", r.pick(&FUNCS), (0..n).map(|_| e(r)).collect::<Vec<_>>().join(", "))
        }
        8 => format!("CASE WHEN {} THEN {} ELSE {} END", e(r), e(r), e(r)),
        9 => format!("CASE {} WHEN {} THEN {} END", e(r), e(r), e(r)),
        10 => {
            let n = r.below(4);
            format!("[{}]", (0..n).map(|_| e(r)).collect::<Vec<_>>().join(", "))
        }
        11 => format!("{}(DISTINCT {})", r.pick(&["count", "sum", "collect", "min", "avg"]), e(r)),
        12 => "count(*)".to_string(),
        13 => {
            if cy {
                format!("{} IS {}NULL", e(r), if r.chance(0.5) { "NOT " } else { "" })
            } else {
                format!("EXISTS {{ MATCH {} WHERE {} }}", pattern(r, cy, &mut Vec::new()), e(r))
            }
        }
        14 => format!("{} || {}", e(r), e(r)),
        15 => format!("{} IN {}", e(r), e(r)),
        16 => format!("{} =~ {}", e(r), r.pick(&STRS)),
        17 => format!("{}[{}]", e(r), e(r)),
        18 => format!("{}[{}..{}]", e(r), num(r), num(r)),
        19 => format!("{} XOR {}", e(r), e(r)),
        20 => format!("{} ^ {}", e(r), e(r)),
        _ => format!("[x IN {} WHERE {} | {}]", e(r), e(r), e(r)),
    }
}

fn props(r: &mut Rng, cy: bool) -> String {
    if r.chance(0.6) {
        return String::new();
    }
    let n = 1 + r.below(2);
    format!(" {{{}}}", (0..n).map(|_| format!("{}: {}", r.pick(&PROPS), lit(r, cy, 1))).collect::<Vec<_>>().join(", "))
}

fn node(r: &mut Rng, cy: bool, vars: &mut Vec<&'static str>) -> String {
    let var = if r.chance(0.75) {
        let v = *r.pick(&["a", "b", "n", "m", "c"]);
        if !vars.contains(&v) {
            vars.push(v);
        }
        v
    } else {
        ""
    };
    let mut s = format!("({var}");
    let nl = *r.pick(&[0usize, 0, 1, 1, 1, 2]);
    for _ in 0..nl {
        s.push(':');
        s.push_str(*r.pick(&LABELS));
    }
    s.push_str(&props(r, cy));
    s.push(')');
    s
}

fn varlen(r: &mut Rng) -> String {
    match r.below(12) {
        0..=6 => String::new(),
        7 => format!("*{}", r.below(3)),
        8 => format!("*{}..{}", r.below(3), r.below(4)),
        9 => format!("*..{}", r.below(4)),
        10 => "*1..2".to_string(),
        _ => format!("*{}..{}", r.below(2), 1 + r.below(2)),
    }
}

fn edge(r: &mut Rng, cy: bool, vars: &mut Vec<&'static str>) -> String {
    if r.chance(0.15) {
        return (*r.pick(&["--", "-->", "<--", "-[]-", "-[]->", "<-[]-"])).to_string();
    }
    let var = if r.chance(0.5) {
        let v = *r.pick(&["r", "e", "k"]);
        if !vars.contains(&v) {
            vars.push(v);
        }
        v
    } else {
        ""
    };
    let mut inner = var.to_string();
    if r.chance(0.7) {
        inner.push(':');
        inner.push_str(*r.pick(&TYPES));
        if cy && r.chance(0.2) {
            inner.push('|');
            inner.push_str(*r.pick(&TYPES));
        }
    }
    inner.push_str(&varlen(r));
    inner.push_str(&props(r, cy));
    match r.below(3) {
        0 => format!("-[{inner}]->"),
        1 => format!("<-[{inner}]-"),
        _ => format!("-[{inner}]-"),
    }
}

pub fn pattern(r: &mut Rng, cy: bool, vars: &mut Vec<&'static str>) -> String {
    let mut s = node(r, cy, vars);
    let hops = *r.pick(&[0usize, 0, 1, 1, 1, 2, 3]);
    for _ in 0..hops {
        s.push_str(&edge(r, cy, vars));
        s.push_str(&node(r, cy, vars));
    }
    s
}

fn ret_items(r: &mut Rng, cy: bool, vars: &[&str]) -> String {
    if cy && r.chance(0.1) {
        return "*".into();
    }
    let n = 1 + r.below(3);
    (0..n)
        .map(|i| {
            let e = expr(r, cy, vars, 2);
            if r.chance(0.4) { format!("{e} AS c{i}") } else { e }
        })
        .collect::<Vec<_>>()
        .join(", ")
}

fn tail(r: &mut Rng, cy: bool, vars: &[&str]) -> String {
    let mut s = String::new();
    if r.chance(0.3) {
        s.push_str(&format!(" ORDER BY {}{}", expr(r, cy, vars, 1), r.pick(&["", " ASC", " DESC", " desc"])));
    }
    if r.chance(0.2) {
        s.push_str(&format!(" SKIP {}", r.pick(&["0", "1", "2", "100", "9223372036854775807", "18446744073709551615", "-1", "$p"])));
    }
    if r.chance(0.3) {
        s.push_str(&format!(" LIMIT {}", r.pick(&["0", "1", "5", "9223372036854775807", "18446744073709551616", "-1", "1.5", "$limit"])));
    }
    s
}

pub fn gen_query(r: &mut Rng, lang: u8) -> String {
    let cy = lang == L_CYPHER;
    let mut vars: Vec<&'static str> = Vec::new();
    let mut s = String::new();
    match r.below(14) {
        0..=6 => {
            // read query
            if r.chance(0.15) {
                s.push_str("OPTIONAL ");
            }
            s.push_str("MATCH ");
            if r.chance(0.1) {
                s.push_str("p = ");
            }
            s.push_str(&pattern(r, cy, &mut vars));
            if r.chance(0.15) {
                s.push_str(", ");
                s.push_str(&pattern(r, cy, &mut vars));
            }
            if r.chance(0.6) {
                s.push_str(&format!(" WHERE {}", expr(r, cy, &vars, 3)));
            }
            if r.chance(0.2) {
                s.push_str(&format!(" OPTIONAL MATCH {}", pattern(r, cy, &mut vars)));
            }
            if r.chance(0.25) {
                let items = ret_items(r, cy, &vars);
                s.push_str(&format!(" WITH {}{items}", if r.chance(0.3) { "DISTINCT " } else { "" }));
                vars = vec!["c0", "c1"];
                if r.chance(0.4) {
                    s.push_str(&format!(" WHERE {}", expr(r, cy, &vars, 2)));
                }
            }
            if r.chance(0.1) {
                s.push_str(&format!(" UNWIND {} AS u", expr(r, cy, &vars, 2)));
                vars.push("u");
            }
            s.push_str(&format!(" RETURN {}{}", if r.chance(0.2) { "DISTINCT " } else { "" }, ret_items(r, cy, &vars)));
            s.push_str(&tail(r, cy, &vars));
            if !cy && r.chance(0.05) {
                s.push_str(&format!(" HAVING {}", expr(r, cy, &vars, 2)));
            }
        }
        7 => {
            s.push_str(&format!("UNWIND {} AS x RETURN {}", expr(r, cy, &[], 2), ret_items(r, cy, &["x"])));
            s.push_str(&tail(r, cy, &["x"]));
        }
        8 => {
            let kw = if cy { "CREATE" } else { *r.pick(&["INSERT", "CREATE"]) };
            s.push_str(&format!("{kw} {}", pattern(r, cy, &mut vars)));
            if r.chance(0.3) {
                s.push_str(&format!(" RETURN {}", ret_items(r, cy, &vars)));
            }
        }
        9 => {
            s.push_str(&format!("MERGE {}", node(r, cy, &mut vars)));
            if r.chance(0.5) {
                let v = vars.first().copied().unwrap_or("n");
                s.push_str(&format!(" ON CREATE SET {v}.{} = {}", r.pick(&PROPS), expr(r, cy, &vars, 1)));
            }
            if r.chance(0.3) {
                let v = vars.first().copied().unwrap_or("n");
                s.push_str(&format!(" ON MATCH SET {v}.{} = {}", r.pick(&PROPS), expr(r, cy, &vars, 1)));
            }
            if r.chance(0.5) {
                s.push_str(&format!(" RETURN {}", ret_items(r, cy, &vars)));
            }
        }
        10 => {
            s.push_str(&format!("MATCH {}", pattern(r, cy, &mut vars)));
            let v = vars.first().copied().unwrap_or("n");
            match r.below(5) {
                0 => s.push_str(&format!(" SET {v}.{} = {}", r.pick(&PROPS), expr(r, cy, &vars, 2))),
                1 => s.push_str(&format!(" SET {v}:{}", r.pick(&LABELS))),
                2 => s.push_str(&format!(" REMOVE {v}.{}", r.pick(&PROPS))),
                3 => s.push_str(&format!(" REMOVE {v}:{}", r.pick(&LABELS))),
                _ => s.push_str(&format!(" SET {v} {} {}", if cy { r.pick(&["=", "+="]) } else { &"=" }, lit(r, true, 2))),
            }
            if r.chance(0.5) {
                s.push_str(&format!(" RETURN {}", ret_items(r, cy, &vars)));
            }
        }
        11 => {
            s.push_str(&format!("MATCH {}", pattern(r, cy, &mut vars)));
            if r.chance(0.5) {
                s.push_str(&format!(" WHERE {}", expr(r, cy, &vars, 2)));
            }
            let v = vars.first().copied().unwrap_or("n");
            s.push_str(&format!(" {}DELETE {v}", if r.chance(0.6) { "DETACH " } else { "" }));
        }
        12 => {
            s.push_str(&format!("MATCH {}, {}", node(r, cy, &mut vars), node(r, cy, &mut vars)));
            let a = vars.first().copied().unwrap_or("a");
            let b = vars.last().copied().unwrap_or("b");
            s.push_str(&format!(" WHERE {} CREATE ({a})-[:{}{}]->({b})", expr(r, cy, &vars, 1), r.pick(&TYPES), props(r, cy)));
        }
        _ => {
            s.push_str(match r.below(8) {
                0 => "CREATE NODE TYPE Foo (name STRING, age INT)",
                1 => "CREATE EDGE TYPE Bar (w FLOAT)",
                2 => "CREATE VECTOR INDEX vi ON :Person(vec) DIMENSION 3 METRIC 'cosine'",
                3 => "CALL grafeo.pagerank() YIELD node_id, score RETURN node_id, score",
                4 => "CALL db.labels()",
                5 => "MATCH p = shortestPath((a:Person {id: 0})-[:KNOWS*..3]->(b:Person {id: 4})) RETURN p",
                6 => "MATCH (n) RETURN n.name UNION MATCH (m) RETURN m.name",
                _ => "CREATE INDEX ON :Person(name)",
            });
        }
    }
    s
}

pub fn gen_param_query(r: &mut Rng, lang: u8) -> String {
    let cy = lang == L_CYPHER;
    PARAM_QUERIES[r.below(PARAM_QUERIES.len())].replace("INSERT", if cy { "CREATE" } else { "INSERT" })
}

pub const PARAM_QUERIES: [&str; 22] = [
    "MATCH (n:Person) WHERE n.age = $p RETURN n.name",
    "MATCH (n:Person) WHERE n.age > $p RETURN n.name",
    "MATCH (n:Person) WHERE n.age + $p > 0 RETURN n.name",
    "MATCH (n:Person) WHERE n.age * $p > 0 RETURN n.name",
    "MATCH (n:Person) WHERE n.age / $p = 1 RETURN n.name",
    "MATCH (n:Person) WHERE n.age % $p = 1 RETURN n.name",
    "MATCH (n:Person) WHERE -$p < n.age RETURN n.name",
    "MATCH (n:Person) WHERE NOT $p RETURN n.name",
    "MATCH (n:Person) WHERE n.name STARTS WITH $p RETURN n.name",
    "MATCH (n:Person) WHERE n.name CONTAINS $p RETURN n.name",
    "MATCH (n:Person {name: $name}) RETURN n.age",
    "MATCH (n:Person) RETURN n.age + $p AS s",
    "MATCH (n:Person) RETURN $p AS s, n.name ORDER BY s",
    "MATCH (n:Person) RETURN n.name LIMIT $limit",
    "MATCH (n:Person) RETURN n.name SKIP $p",
    "UNWIND $list AS x RETURN x",
    "MATCH (n:Person) RETURN size($p), head($p), tostring($p), tointeger($p), tofloat($p)",
    "INSERT (:T {v: $value})",
    "MATCH (n:Person) SET n.age = $p RETURN n.age",
    "MATCH (n:Person) WHERE n.age = $missing RETURN n",
    "MATCH (n:Person) RETURN CASE WHEN $p THEN 1 ELSE 2 END",
    "MATCH (n:Person) RETURN count($p), sum($p), avg($p), min($p), max($p), collect($p)",
];

// -------------------------------------------------------------------------------------
// nesting constructs
// -------------------------------------------------------------------------------------

pub fn nests(lang: u8) -> Vec<Nest> {
    let cy = lang == L_CYPHER;
    let mut v = vec![
        nest(lang, "paren-where", |d| wrap("MATCH (n) WHERE ", "(", "true", ")", " RETURN n", d)),
        nest(lang, "paren-return", |d| wrap("MATCH (n) RETURN ", "(", "1", ")", "", d)),
        nest(lang, "list", |d| wrap("MATCH (n) RETURN ", "[", "1", "]", "", d)),
        nest(lang, "not", |d| wrap("MATCH (n) WHERE ", "NOT ", "true", "", " RETURN n", d)),
        nest(lang, "unary-minus", |d| wrap("MATCH (n) RETURN ", "- ", "1", "", "", d)),
        nest(lang, "function", |d| wrap("MATCH (n) RETURN ", "size(", "n.name", ")", "", d)),
        nest(lang, "case", |d| wrap("MATCH (n) RETURN ", "CASE WHEN true THEN ", "1", " END", "", d)),
        nest(lang, "chain-plus", |d| chain("MATCH (n) RETURN ", "1", " + ", "", d)),
        nest(lang, "chain-and", |d| chain("MATCH (n) WHERE ", "n.age > 1", " AND ", " RETURN n", d)),
        nest(lang, "chain-or", |d| chain("MATCH (n) WHERE ", "n.age = 1", " OR ", " RETURN n", d)),
        nest(lang, "chain-hops", |d| chain("MATCH (n)", "-[:NOPE]->()", "", " RETURN n", d)),
        nest(lang, "chain-with", |d| chain("MATCH (n) ", "WITH n", " ", " RETURN n", d)),
        nest(lang, "chain-return-items", |d| chain("MATCH (n:Nope) RETURN ", "n.a", ", ", "", d)),
        nest(lang, "chain-labels", |d| chain("MATCH (n", ":A", "", ") RETURN n", d)),
        nest(lang, "chain-list-items", |d| chain("MATCH (n:Nope) RETURN [", "1", ",", "]", d)),
        nest(lang, "unwind-list", |d| wrap("UNWIND ", "[", "1", "]", " AS x RETURN x", d)),
    ];
    if cy {
        v.push(nest(lang, "map", |d| wrap("MATCH (n) RETURN ", "{a: ", "1", "}", "", d)));
        v.push(nest(lang, "index", |d| wrap("MATCH (n) RETURN [1]", "[0", "", "]", "", d)));
        v.push(nest(lang, "index-chain", |d| chain("MATCH (n) RETURN [1]", "[0]", "", "", d)));
        v.push(nest(lang, "unary-plus", |d| wrap("MATCH (n) RETURN ", "+", "1", "", "", d)));
        v.push(nest(lang, "chain-xor", |d| chain("MATCH (n) RETURN ", "true", " XOR ", "", d)));
        v.push(nest(lang, "chain-pow", |d| chain("MATCH (n) RETURN ", "1", " ^ ", "", d)));
        v.push(nest(lang, "comprehension", |d| wrap("MATCH (n) RETURN ", "[x IN [1] | ", "x", "]", "", d)));
        v.push(nest(lang, "chain-property", |d| chain("MATCH (n) RETURN n", ".a", "", "", d)));
    } else {
        v.push(nest(lang, "exists-subquery", |d| wrap("MATCH (n) WHERE ", "EXISTS { MATCH (n) WHERE ", "true", " }", " RETURN n", d)));
        v.push(nest(lang, "chain-concat", |d| chain("MATCH (n) RETURN ", "'a'", " || ", "", d)));
    }
    v
}

// -------------------------------------------------------------------------------------
// directed corpus
// -------------------------------------------------------------------------------------

/// 45 MATCH clauses over an empty label: nothing to join, yet join ordering enumerates subsets
const JOIN45: &str = "MATCH (n0:Nope) MATCH (n1:Nope) MATCH (n2:Nope) MATCH (n3:Nope) MATCH (n4:Nope) MATCH (n5:Nope) MATCH (n6:Nope) MATCH (n7:Nope) MATCH (n8:Nope) MATCH (n9:Nope) MATCH (n10:Nope) MATCH (n11:Nope) MATCH (n12:Nope) MATCH (n13:Nope) MATCH (n14:Nope) MATCH (n15:Nope) MATCH (n16:Nope) MATCH (n17:Nope) MATCH (n18:Nope) MATCH (n19:Nope) MATCH (n20:Nope) MATCH (n21:Nope) MATCH (n22:Nope) MATCH (n23:Nope) MATCH (n24:Nope) MATCH (n25:Nope) MATCH (n26:Nope) MATCH (n27:Nope) MATCH (n28:Nope) MATCH (n29:Nope) MATCH (n30:Nope) MATCH (n31:Nope) MATCH (n32:Nope) MATCH (n33:Nope) MATCH (n34:Nope) MATCH (n35:Nope) MATCH (n36:Nope) MATCH (n37:Nope) MATCH (n38:Nope) MATCH (n39:Nope) MATCH (n40:Nope) MATCH (n41:Nope) MATCH (n42:Nope) MATCH (n43:Nope) MATCH (n44:Nope) RETURN n0";

pub fn directed(lang: u8, v: &mut Vec<Input>) {
    let cy = lang == L_CYPHER;
    let ins = if cy { "CREATE" } else { "INSERT" };
    macro_rules! add { ($f:expr, $x:expr, $q:expr) => { v.push(Input::new(lang, $x, $f, $q)) }; }

    // ---- arithmetic: op × operand extremes × position -------------------------------
    let operands = [
        "0", "1", "-1", "2", "9223372036854775807", "-9223372036854775808", "(-9223372036854775807 - 1)", "0.0", "-0.0", "1e308", "1.5", "null", "'a'", "true", "[1]", "n.age",
        "n.score", "n.name", "n.nope", "n.tags",
    ];
    let ops = ["+", "-", "*", "/", "%"];
    for op in ops {
        for a in operands {
            for b in operands {
                // one of the two sides an extreme int / zero / property (the interesting region)
                let hot = |x: &str| x.contains("9223372036854775807") || x == "0" || x == "-1" || x.starts_with("n.a") || x == "0.0" || x == "n.score";
                if !(hot(a) || hot(b)) {
                    continue;
                }
                add!("arith", 1, format!("MATCH (n:Person) WHERE {a} {op} {b} = 1 RETURN n.name"));
                add!("arith", 1, format!("MATCH (n:Person) RETURN {a} {op} {b} AS x"));
            }
        }
    }
    for e in [
        "-n.age", "- n.age", "-(-9223372036854775807 - 1)", "-(n.age)", "0 - n.age", "n.age + 1", "n.age - 1", "n.age * 2", "n.age * -1", "n.age / 0", "n.age % 0", "n.age / -1",
        "n.age % -1", "n.age / 0.0", "n.age % 0.0", "n.score / 0", "n.score % 0", "1 / 0", "1 % 0", "1.0 / 0", "0 / 0", "0.0 / 0.0", "abs(n.age)", "abs(-9223372036854775807 - 1)",
        "n.age + n.age", "n.age * n.age", "sum(n.age)", "avg(n.age)", "sum(n.age) + 1", "count(n) * 9223372036854775807", "n.age ^ 2", "2 ^ 1024", "n.id - 9223372036854775807 - 10",
        "tointeger(n.score)", "tointeger(1e308)", "tointeger('9223372036854775808')", "tointeger('x')", "tofloat('1e400')", "round(n.score)", "floor(n.score)", "ceil(1e308)",
        "sign(n.age)", "sqrt(-1)", "log(0)", "range(0, 3)", "range(0, 9223372036854775807)", "range(0, 10, 0)", "range(10, 0, -1)", "range(0, 10, 9223372036854775807)",
        "r.since + 1", "r.since * 2", "r.weight / 0",
    ] {
        add!("arith", 1, format!("MATCH (n:Person)-[r:KNOWS]->(m) WHERE {e} > 0 RETURN n.name"));
        add!("arith", 1, format!("MATCH (n:Person)-[r:KNOWS]->(m) RETURN {e} AS x"));
        add!("arith", 1, format!("MATCH (n:Person)-[r:KNOWS]->(m) RETURN n.name ORDER BY {e}"));
        add!("arith", 1, format!("MATCH (n:Person)-[r:KNOWS]->(m) WITH {e} AS x RETURN x"));
        add!("arith", 1, format!("MATCH (n:Person)-[r:KNOWS]->(m) SET n.tmp = {e}"));
        add!("arith", 1, format!("UNWIND [1, 9223372036854775807] AS x RETURN x + 1, x * 2, -x - 2, x / 0, x % 0"));
    }
    // ---- numeric extremes in literal / clause positions ---------------------------------
    for x in EXTREME_NUMS {
        add!("numeric", 1, format!("MATCH (n:Person) RETURN {x}"));
        add!("numeric", 1, format!("MATCH (n:Person) WHERE n.age = {x} RETURN n"));
        add!("numeric", 1, format!("MATCH (n:Person) WHERE n.age < {x} RETURN n"));
        add!("numeric", 1, format!("MATCH (n:Person) RETURN n.name SKIP {x}"));
        add!("numeric", 1, format!("MATCH (n:Person) RETURN n.name LIMIT {x}"));
        add!("numeric", 1, format!("MATCH (n:Person) RETURN n.name ORDER BY n.name SKIP {x} LIMIT {x}"));
        add!("numeric", 1, format!("MATCH (n:Person {{age: {x}}}) RETURN n"));
        add!("numeric", 1, format!("{ins} (:Num {{v: {x}}})"));
        // (the Thing-REL component is a single edge: no cycle to walk around, see "explosive")
        v.push(Input::new(lang, 1, "varlen-acyclic", format!("MATCH (a:Thing)-[:REL*{x}]->(b) RETURN count(b)").replace("*-", "*")));
        v.push(Input::new(lang, 1, "varlen-acyclic", format!("MATCH (a:Thing)-[:REL*0..{x}]->(b:Nope) RETURN count(b)").replace("..-", "..")));
        v.push(Input::new(lang, 1, "varlen-acyclic", format!("MATCH (a:Thing)-[:REL*{x}..1]->(b) RETURN count(b)").replace("*-", "*")));
        add!("numeric", 1, format!("MATCH (n:Person) RETURN [1,2,3][{x}], n.tags[{x}], n.name[{x}]"));
        add!("numeric", 1, format!("UNWIND range(0, {x}) AS i RETURN count(i)").replace("9223372036854775807", "3"));
        add!("numeric", 1, format!("CREATE VECTOR INDEX vx ON :Person(vec) DIMENSION {x}"));
        add!("numeric", 1, format!("MATCH (n) WHERE id(n) = {x} RETURN n"));
    }
    for q in [
        "MATCH (a:Person {id: 0})-[:KNOWS*0..]->(b:Nope) RETURN count(b)", "MATCH (a:Person {id: 0})-[:KNOWS*0]->(b) RETURN count(b)", "MATCH (a)-[*0..0]->(b) RETURN count(b)",
        "MATCH (a:Person {id: 0})-[:KNOWS*3..1]->(b) RETURN count(b)", "MATCH (a:Person {id: 0})-[:KNOWS*..4000000000]->(b:Nope) RETURN count(b)",
        "MATCH (a:Thing)-[:REL*..4000000000]->(b) RETURN count(b)", "MATCH (a:Thing)-[:REL*0..]->(b) RETURN count(b)", "MATCH (a:Thing)-[:REL*]->(b) RETURN count(b)",
        "MATCH (a:Thing)-[*]-(b) RETURN count(b)", "MATCH (a:Thing)-[:REL*4294967295..4294967296]->(b) RETURN count(b)", "MATCH (a:Thing)-[:REL*1..18446744073709551616]->(b) RETURN b",
        "MATCH (a:Thing)-[:REL*..]->(b) RETURN b", "MATCH (a:Thing)-[:REL*1...3]->(b) RETURN b", "MATCH (a:Thing)-[:REL*1.5]->(b) RETURN b", "MATCH (a:Thing)-[:REL*-1]->(b) RETURN b",
        "MATCH (a:Thing)-[r:REL*1..2 {w: 1}]->(b) RETURN r", "MATCH p = (a:Thing)-[:REL*1..2]->(b) RETURN p, length(p), nodes(p), relationships(p)",
        "MATCH p = shortestPath((a:Thing)-[:REL*]->(b:Thing)) RETURN p", "MATCH p = shortestPath((a:Thing)-[*]-(b:Nope)) RETURN p", "MATCH p = allShortestPaths((a:Thing)-[:REL*..5]-(b)) RETURN p",
        "MATCH p = shortestPath((a:Thing)-[:REL*0..0]->(a)) RETURN p", "MATCH p = shortestPath((a)) RETURN p", "MATCH p = shortestPath((a)-[]->(b)-[]->(c)) RETURN p",
    ] {
        add!("numeric", 1, q.to_string());
        add!("numeric", 0, q.to_string());
    }
    // ---- out-of-range indexes / slices / string functions -------------------------------
    let idx = ["0", "1", "-1", "3", "-4", "100", "9223372036854775807", "-9223372036854775808", "1.5", "null", "'a'", "true", "n.age", "[0]", "-0"];
    for base in ["[1,2,3]", "[]", "'abc'", "''", "'Zoë日本'", "n.tags", "n.name", "n.meta", "n.vec", "n.data", "n.nope", "null", "1", "labels(n)", "keys(n)", "collect(n.name)"] {
        for i in idx {
            add!("index", 1, format!("MATCH (n:Person) RETURN {base}[{i}]"));
            add!("index", 1, format!("MATCH (n:Person) WHERE {base}[{i}] = 1 RETURN n"));
            add!("index", 1, format!("MATCH (n:Person) RETURN {base}[{i}..]"));
            add!("index", 1, format!("MATCH (n:Person) RETURN {base}[..{i}]"));
            add!("index", 1, format!("MATCH (n:Person) RETURN {base}[{i}..{i}]"));
            add!("index", 1, format!("MATCH (n:Person) RETURN {base}[2..{i}]"));
            add!("index", 1, format!("MATCH (n:Person) RETURN substring({base}, {i})"));
            add!("index", 1, format!("MATCH (n:Person) RETURN substring({base}, {i}, {i}), left({base}, {i}), right({base}, {i})"));
            add!("index", 1, format!("MATCH (n:Person) RETURN substring({base}, 1, {i})"));
        }
        add!("index", 1, format!("MATCH (n:Person) RETURN head({base}), last({base}), tail({base}), reverse({base}), size({base}), length({base})"));
    }
    // ---- functions: every name × arity 0..3 × argument kinds ----------------------------
    let args = ["1", "-1", "0", "9223372036854775807", "1.5", "'a'", "''", "'Zoë'", "null", "true", "[1,2]", "[]", "[null]", "n", "r", "n.name", "n.age", "n.tags", "n.vec", "n.meta", "n.nope", "[[1]]", "$p"];
    for f in FUNCS {
        add!("function", 1, format!("MATCH (n:Person)-[r:KNOWS]->(m) RETURN {f}()"));
        add!("function", 1, format!("MATCH (n:Person)-[r:KNOWS]->(m) RETURN {f}(*)"));
        add!("function", 1, format!("MATCH (n:Person)-[r:KNOWS]->(m) RETURN {f}(DISTINCT n.age)"));
        for a in args {
            add!("function", 1, format!("MATCH (n:Person)-[r:KNOWS]->(m) RETURN {f}({a})"));
            add!("function", 1, format!("MATCH (n:Person)-[r:KNOWS]->(m) WHERE {f}({a}) = 1 RETURN n.name"));
            add!("function", 0, format!("MATCH (n) RETURN {f}({a})"));
        }
        for (a, b) in [("n.name", "1"), ("1", "n.name"), ("n.vec", "n.vec"), ("n.vec", "[1.0]"), ("[1.0, 2.0]", "[1.0]"), ("[]", "[]"), ("null", "null"), ("n", "'Person'"), ("n.name", "'l'"), ("n.tags", "-1"), ("9223372036854775807", "1"), ("'a'", "''"), ("n.name", "null"), ("[1,'a']", "[2]")] {
            add!("function", 1, format!("MATCH (n:Person)-[r:KNOWS]->(m) RETURN {f}({a}, {b})"));
            add!("function", 1, format!("MATCH (n:Person)-[r:KNOWS]->(m) WHERE {f}({a}, {b}) > 0 RETURN n.name"));
        }
        add!("function", 1, format!("MATCH (n:Person) RETURN {f}(n.name, 1, 2)"));
        add!("function", 1, format!("MATCH (n:Person) RETURN {f}(n.name, 'a', 'b')"));
        add!("function", 1, format!("MATCH (n:Person) RETURN {f}(n.name, -1, 9223372036854775807)"));
        add!("function", 1, format!("MATCH (n:Person) RETURN {f}(1, 2, 3, 4)"));
        add!("function", 1, format!("MATCH (n:Person) RETURN n.name ORDER BY {f}(n.age)"));
        add!("function", 1, format!("MATCH (n:Person) RETURN {f}({f}(n.age))"));
        add!("function", 1, format!("MATCH (n:Person) RETURN n.active, {f}(n.age) ORDER BY n.active"));
        add!("function", 1, format!("MATCH (n:Person) WITH {f}(n.age) AS x RETURN x"));
    }
    for q in [
        "MATCH (n:Person) RETURN vector([1.0, 2.0])", "MATCH (n:Person) RETURN vector([])", "MATCH (n:Person) RETURN vector(['a'])", "MATCH (n:Person) RETURN vector([1e400])",
        "MATCH (n:Person) RETURN cosine_similarity(n.vec, vector([1.0, 0.0, 0.0]))", "MATCH (n:Person) RETURN cosine_similarity(n.vec, vector([1.0]))",
        "MATCH (n:Person) RETURN cosine_similarity(vector([0.0]), vector([0.0]))", "MATCH (n:Person) RETURN euclidean_distance(n.vec, [1, 2, 3])", "MATCH (n:Person) RETURN dot_product([], [])",
        "MATCH (n:Person) RETURN manhattan_distance(n.vec, n.name)", "MATCH (n:Person) RETURN n ORDER BY cosine_similarity(n.vec, vector([1.0, 0.0, 0.0])) DESC LIMIT 3",
        "CREATE VECTOR INDEX vi ON :Person(vec) DIMENSION 3 METRIC 'cosine'", "CREATE VECTOR INDEX vi ON :Person(vec) DIMENSION 0 METRIC 'nope'", "CREATE VECTOR INDEX vi ON :Person(vec)",
        "CREATE VECTOR INDEX vi ON :Person(name) DIMENSION 3", "CREATE VECTOR INDEX `` ON :``(``) DIMENSION 18446744073709551615 METRIC ''", "CREATE VECTOR INDEX vi ON :Person(vec) DIMENSION 2 METRIC 'euclidean'",
        "CREATE NODE TYPE T", "CREATE NODE TYPE T ()", "CREATE NODE TYPE T (a INT, a INT)", "CREATE NODE TYPE T (a NOPE)", "CREATE NODE TYPE T (a INT NOT NULL)", "CREATE EDGE TYPE E (w FLOAT)", "CREATE EDGE TYPE",
        "CREATE NODE", "CREATE", "CREATE VECTOR", "CREATE VECTOR INDEX", "CREATE NODE TYPE `a b` (`c d` STRING)",
    ] {
        add!("function", 1, q.to_string());
    }
    // ---- regex ---------------------------------------------------------------------------
    for p in [
        "", ".*", "(", ")", "[", "]", "*", "+", "?", "\\\\", "a{1000000}", "a{99999999999}", "(a+)+$", "(a*)*b", "(a|aa)+$", "((((((((((a*)*)*)*)*)*)*)*)*)*", "(?i)al.*", "(?P<n>a)(?P<n>b)",
        "\\\\1", "(?=a)", "[[:alpha:]]", "\\\\p{Greek}", "\\\\xZZ", "[z-a]", "a{2,1}", "(?x) a b", "^$", "é+", "\\\\u{110000}", ".{0,1000}{0,1000}", "(?:(?:(?:(?:(?:a)))))", "\\\\", "\\\\Q", "(?",
    ] {
        if cy {
            add!("regex", 1, format!("MATCH (n:Person) WHERE n.name =~ '{p}' RETURN n.name"));
            add!("regex", 1, format!("MATCH (n:Person) RETURN n.name =~ '{p}'"));
            add!("regex", 1, format!("MATCH (n:Person) WHERE n.age =~ '{p}' RETURN n.name"));
            add!("regex", 1, format!("MATCH (n:Person) WHERE '{p}' =~ n.name RETURN n.name"));
        }
        add!("regex", 1, format!("MATCH (n:Person) WHERE n.name STARTS WITH '{p}' RETURN n.name"));
        add!("regex", 1, format!("MATCH (n:Person) WHERE n.name CONTAINS '{p}' OR n.name ENDS WITH '{p}' RETURN n.name"));
        add!("regex", 1, format!("MATCH (n:Person) WHERE n.name LIKE '{p}' RETURN n.name"));
        add!("regex", 1, format!("MATCH (n:Person) RETURN replace(n.name, '{p}', 'x'), split(n.name, '{p}')"));
    }
    if cy {
        add!("regex", 1, format!("MATCH (n:Person) WHERE '{}' =~ '(a+)+$' RETURN n.name", "a".repeat(40) + "!"));
        add!("regex", 1, format!("MATCH (n:Person) WHERE n.name =~ '{}' RETURN n.name", "(a?)".repeat(60) + &"a".repeat(60)));
        add!("regex", 1, format!("MATCH (n:Person) WHERE n.name =~ '{}' RETURN n.name", "(".repeat(3000) + &")".repeat(3000)));
    }
    // ---- parameters: every pool value × parametrised queries ------------------------------
    let np = crate::vals::pool().len();
    for (qi, q) in PARAM_QUERIES.iter().enumerate() {
        let q = q.replace("INSERT", ins);
        for k in 0..np {
            // every value through the arithmetic/comparison queries; a rotating half elsewhere
            if qi < 9 || (k + qi) % 2 == 0 {
                v.push(Input::new(lang, 1, "params-pool", q.clone()).par(format!("p{k}")));
            }
        }
        v.push(Input::new(lang, 1, "params-pool", q.clone()).par("all"));
        v.push(Input::new(lang, 1, "params-pool", q.clone()).par("none"));
        v.push(Input::new(lang, 0, "params-pool", q.clone()).par("p3"));
    }
    for q in ["MATCH (n) RETURN $p0, $p1, $p2", "MATCH (n) WHERE n.age = $ RETURN n", "MATCH (n) WHERE n.age = $1 RETURN n", "MATCH (n) RETURN $$p", "MATCH (n) RETURN $p.x, $p[0]", "MATCH (n:$p) RETURN n", "MATCH (n {name: $p}) RETURN n", "MATCH (n)-[:KNOWS*$p]->(m) RETURN m"] {
        for k in [0, 3, 25, 60, 70, 90, 100] {
            v.push(Input::new(lang, 1, "params-pool", q).par(format!("p{k}")));
        }
    }
    // ---- mutations and type confusion ----------------------------------------------------
    for q in [
        "MATCH (n:Person) SET n.age = n.age + 1 RETURN n.age", "MATCH (n:Person) SET n.age = n.age * 2", "MATCH (n:Person) SET n = {}", "MATCH (n:Person) SET n += {a: 1}", "MATCH (n:Person) SET n.name = null",
        "MATCH (n:Person) SET n:A:B REMOVE n:Person", "MATCH (n:Person) REMOVE n.nope, n.age", "MATCH (n) DELETE n", "MATCH (n) DETACH DELETE n", "MATCH (n)-[r]->(m) DELETE r, n, m", "MATCH (n)-[r]->(m) DELETE n",
        "MATCH (n) DELETE n RETURN n.name", "MATCH (n) DETACH DELETE n RETURN count(n)", "MATCH (n:Person) DELETE n.age", "MATCH (n:Person)-[r]->() DELETE r RETURN type(r), r.since",
        "MERGE (n:Person {name: 'Alice'}) ON CREATE SET n.c = 1 ON MATCH SET n.m = n.age + 1 RETURN n", "MERGE (n) RETURN n", "MERGE (n:X {v: 1/0})", "MERGE (a)-[:R]->(b)", "MERGE (n:X {v: null}) RETURN n",
        "MATCH (a:Person), (b:City) CREATE (a)-[:R {w: a.age + 1}]->(b)", "MATCH (a:Person) CREATE (a)-[:R]->(a)", "CREATE (a)-[:R]->(b)-[:R]->(a)", "CREATE (a), (a)", "CREATE (a)-[r:R]->(b), (b)-[r:R]->(a)", "CREATE ()-[]->()",
        "CREATE ()-[:R]-()", "CREATE ()<-[:R]->()", "CREATE (n:Person {age: n.age})", "CREATE (n {a: [1, 'a', null, [2]]})", "CREATE (n {a: {b: 1}})", "CREATE (:`` {``: 1})", "CREATE (n:A:A:A {a: 1, a: 2})",
        "MATCH (n) WHERE n RETURN n", "MATCH (n) WHERE 1 RETURN n", "MATCH (n) WHERE 'a' RETURN n", "MATCH (n) WHERE null RETURN n", "MATCH (n) WHERE [] RETURN n", "MATCH (n) WHERE n.name RETURN n", "MATCH (n) WHERE NOT n.name RETURN n",
        "MATCH (n) WHERE NOT 1 RETURN n", "MATCH (n) WHERE -'a' = 1 RETURN n", "MATCH (n) WHERE -n = 1 RETURN n", "MATCH (n) WHERE n = n RETURN n", "MATCH (n)-[r]->(m) WHERE r = n RETURN n", "MATCH (n) WHERE n < n RETURN n",
        "MATCH (n) WHERE n.tags = [1] RETURN n", "MATCH (n) WHERE n.meta = n.meta RETURN n", "MATCH (n) WHERE n.vec > n.vec RETURN n", "MATCH (n) WHERE n.data = n.data RETURN n", "MATCH (n) WHERE n.ts > 0 RETURN n.ts + 1",
        "MATCH (n) RETURN n.score + n.score, n.score * 0, -n.score, n.score / n.score ORDER BY n.score", "MATCH (n) RETURN DISTINCT n.score, n.vec, n.meta, n.tags, n.data", "MATCH (n) RETURN n.meta, count(*) ORDER BY n.meta",
        "MATCH (n) RETURN n.tags, collect(n.vec), min(n.tags), max(n.meta), sum(n.name), avg(n.name), sum(n.score), avg(n.score), min(n.score), max(n.score)", "MATCH (n) RETURN sum(n.age), avg(n.age)",
        "MATCH (n:Person) RETURN sum(n.age) + sum(n.age)", "MATCH (n:Person) RETURN count(DISTINCT n.age), sum(DISTINCT n.age), collect(DISTINCT n.score)", "MATCH (n:Person) RETURN n.active, sum(n.age) ORDER BY sum(n.age)",
        "MATCH (n:Person) RETURN n.name, count(*) AS c ORDER BY c DESC, n.name SKIP 1 LIMIT 1", "MATCH (n:Person) RETURN count(*), n", "MATCH (n:Person) RETURN count(count(n))", "MATCH (n:Person) WHERE count(n) > 1 RETURN n",
        "MATCH (n:Person) RETURN n.name ORDER BY count(n)", "MATCH (n:Person) WITH n.active AS a, count(*) AS c WHERE c > 1 RETURN a, c", "MATCH (n:Person) RETURN n.active AS a, count(*) AS c HAVING c > 1",
        "MATCH (n:Person) RETURN count(*) HAVING count(*) / 0 > 1", "MATCH (n:Person) RETURN n.name HAVING 1", "MATCH (n) RETURN n, n, n AS n", "MATCH (n) RETURN n AS a, n AS a", "MATCH (n) RETURN 1 AS n, n", "MATCH (n), (n) RETURN n",
        "MATCH (n)-[n]->(m) RETURN n", "MATCH (n)-[r]->(n) RETURN r", "MATCH (n)-[r]->(m)-[r]->(k) RETURN r", "MATCH (a)-[r1]->(b)<-[r2]-(c)-[r3]-(a) RETURN count(*)", "MATCH (a), (b), (c) RETURN count(*)",
        "MATCH (a:Person), (b:Person), (c:Person), (d:Person) RETURN count(*)", "MATCH (n) RETURN x", "MATCH (n) RETURN n.x.y", "MATCH (n) RETURN n.name.x", "RETURN 1", "RETURN", "MATCH", "MATCH (n)", "MATCH (n) RETURN",
        "MATCH (n) WHERE", "MATCH (n) WITH", "MATCH (n) ORDER BY n", "MATCH () RETURN 1", "MATCH (:Person) RETURN 1", "MATCH ()-->() RETURN 1", "MATCH ()--() RETURN count(*)", "MATCH (n)-->(m)<--(k) RETURN count(*)",
        "OPTIONAL MATCH (n:Nope) RETURN n, n.name, id(n), labels(n)", "OPTIONAL MATCH (n:Nope)-[r]->(m) RETURN type(r), r.w + 1, m", "MATCH (n:Person) OPTIONAL MATCH (n)-[r:NOPE]->(m) RETURN n.name, m.name, r",
        "MATCH (n:Person) OPTIONAL MATCH (n)-[r:NOPE]->(m) WHERE m.age / 0 = 1 RETURN n.name", "MATCH (n:Person) OPTIONAL MATCH (n)-[r:NOPE]->(m) DELETE m", "MATCH (n:Person) OPTIONAL MATCH (n)-[r:NOPE]->(m) SET m.a = 1",
        "UNWIND [] AS x RETURN x", "UNWIND null AS x RETURN x", "UNWIND 1 AS x RETURN x", "UNWIND 'abc' AS x RETURN x", "UNWIND [1, [2, [3]]] AS x UNWIND x AS y RETURN y", "UNWIND [[1,2],[3]] AS x UNWIND x AS y RETURN y",
        "UNWIND [1,2] AS x MATCH (n:Person {id: x}) RETURN n.name", "UNWIND [1,2] AS x CREATE (:U {v: x})", "UNWIND [1,2] AS x UNWIND [1,2] AS x RETURN x", "MATCH (n:Person) UNWIND n.tags AS t RETURN t, count(*)",
        "MATCH (n:Person) UNWIND n.name AS t RETURN t", "MATCH (n:Person) UNWIND n AS t RETURN t", "UNWIND range(1, 3) AS x RETURN x", "UNWIND [1,2,3] AS x RETURN x ORDER BY x DESC SKIP 1 LIMIT 1", "UNWIND [1,2,3] AS x RETURN sum(x), collect(x)",
        "UNWIND [1,2,3] AS x WITH x WHERE x > 1 RETURN x", "UNWIND [3,1,2] AS x WITH x ORDER BY x LIMIT 2 RETURN collect(x)", "UNWIND [1,null,'a',1.5,true,[1]] AS x RETURN x ORDER BY x", "UNWIND [1,null,'a',1.5,true,[1]] AS x RETURN DISTINCT x",
        "UNWIND [1,null,'a',1.5,true,[1]] AS x RETURN x, count(*)", "UNWIND [1,null,'a',1.5,true,[1]] AS x RETURN min(x), max(x)", "UNWIND [1,null,'a',1.5,true,[1]] AS x RETURN x + x, x * 2, -x, NOT x",
        "UNWIND [9223372036854775807, 1] AS x RETURN sum(x)", "UNWIND [9223372036854775807, 9223372036854775807] AS x RETURN avg(x)", "UNWIND [-9223372036854775808, -1] AS x RETURN sum(x)", "UNWIND [1e308, 1e308] AS x RETURN sum(x), avg(x)",
        "MATCH (n:Person) RETURN n.name UNION MATCH (n:City) RETURN n.name", "MATCH (n:Person) RETURN n.name UNION ALL MATCH (n:City) RETURN n.name, 1", "MATCH (n) RETURN n UNION", "UNION MATCH (n) RETURN n",
        "CALL grafeo.pagerank() YIELD node_id, score RETURN node_id, score", "CALL grafeo.pagerank({damping: 0.85, max_iterations: 0}) YIELD node_id RETURN node_id", "CALL grafeo.nope()", "CALL", "CALL grafeo.pagerank() YIELD nope",
        "CALL grafeo.pagerank(1/0)", "CALL grafeo.bfs(0)", "CALL grafeo.bfs(9223372036854775807)", "CALL grafeo.dijkstra(0, 1, 'nope')", "CALL grafeo.connected_components()", "CALL grafeo.louvain()", "CALL grafeo.procedures()",
        "CALL grafeo.shortest_path(-1, -1)", "CALL grafeo.betweenness_centrality()", "CALL grafeo.pagerank({damping: 1e400})", "CALL grafeo.pagerank({damping: 'a', max_iterations: -1})", "CALL grafeo.pagerank({max_iterations: 9223372036854775807})",
        "CALL grafeo.kcore(-1)", "CALL grafeo.label_propagation({max_iterations: 0})", "CALL grafeo.triangle_count()", "CALL grafeo.clustering_coefficient()", "CALL grafeo.scc()", "CALL grafeo.topological_sort()",
        "MATCH (n:Person) WHERE EXISTS { MATCH (n)-[:KNOWS]->(m) WHERE m.age / 0 = 1 } RETURN n", "MATCH (n:Person) WHERE EXISTS { MATCH (n)-[:KNOWS]->(m) } RETURN n", "MATCH (n:Person) WHERE NOT EXISTS { MATCH (n)-[:NOPE]->() } RETURN n",
        "MATCH (n:Person) WHERE EXISTS { } RETURN n", "MATCH (n:Person) WHERE EXISTS { MATCH (x) } RETURN n", "MATCH (n:Person) WHERE EXISTS { MATCH (n) RETURN n } RETURN n", "MATCH (n:Person) RETURN EXISTS { MATCH (n)-->() }",
        "MATCH (n:Person) WHERE exists(n.age) RETURN n", "MATCH (n:Person) WHERE exists((n)-[:KNOWS]->()) RETURN n", "MATCH (n:Person) WHERE (n)-[:KNOWS]->() RETURN n", "MATCH (n:Person) WHERE n:Employee RETURN n", "MATCH (n) WHERE n:Person:Employee OR n:City RETURN n",
        "MATCH (n:Person) RETURN CASE n.age WHEN 30 THEN 'a' WHEN null THEN 'b' END", "MATCH (n:Person) RETURN CASE WHEN n.age / 0 > 1 THEN 1 END", "MATCH (n:Person) RETURN CASE END", "MATCH (n:Person) RETURN CASE n.age END", "MATCH (n:Person) RETURN CASE WHEN 1 THEN 2 ELSE 3 END",
        "MATCH (n:Person) RETURN CASE WHEN n.name THEN 1 ELSE n END", "MATCH (case) RETURN case", "MATCH (n:case) RETURN n.end, n.when", "MATCH (match:match {match: 1}) RETURN match", "MATCH (return) RETURN return", "MATCH (type) RETURN type(type)",
        "MATCH (n) RETURN type", "MATCH (n) RETURN type()", "MATCH (n)-[r]->() RETURN type(r), type(n), type(1), type(null), id(r), id(1), labels(r), labels(1)", "MATCH (n:Person) RETURN n.name AS `a b`, n.age AS ```` ORDER BY `a b`",
        "MATCH (`n`:`Person`) RETURN `n`.`name`", "MATCH (n:`Per``son`) RETURN n", "MATCH (``) RETURN ``", "MATCH (n) RETURN n.``", "MATCH (n) RETURN 'a' 'b'", "MATCH (n) RETURN 'unterminated", "MATCH (n) RETURN \"unterminated", "MATCH (n) RETURN `unterminated",
        "MATCH (n) RETURN 'a\\", "MATCH (n) RETURN '\\'", "MATCH (n) RETURN '\\u00e9\\n\\t\\x'", "MATCH (n) RETURN '\\", "MATCH (n) RETURN \"\\\"\"", "MATCH (n) RETURN ''''", "MATCH (n) RETURN '", "MATCH (n) RETURN \"", "MATCH (n) RETURN $", "MATCH (n) RETURN $1a",
        "MATCH (n) RETURN 1 /* c", "MATCH (n) /* c */ RETURN 1 // d", "MATCH (n) RETURN 1 -- c", "MATCH (n) RETURN 1 /", "/**/", "//", "MATCH (n) RETURN 1;", "MATCH (n) RETURN 1; MATCH (n) RETURN 2", "MATCH (n) RETURN 1 |", "MATCH (n) RETURN 1 | 2", "MATCH (n) RETURN 1 || 2 || null || 'a'",
        "MATCH (n) RETURN 1.2.3", "MATCH (n) RETURN 1..2", "MATCH (n) RETURN 1e5, 1E5, 1e+5, 1e-5, 1e, .5, 5., 0x10, 0o7, 0b1, 1_000, 1d, 1f, 1L", "MATCH (n) RETURN 0x, 0xg, 0xffffffffffffffffff, 0o8, 07, 00", "MATCH (n) RETURN n.1, n.1a, n.a1",
        "MATCH (n) RETURN n.name = n.name = n.name, 1 < 2 < 3, 1 = 1 <> 2", "MATCH (n) RETURN 1 IN [1], 1 IN 1, 1 IN null, null IN [null], [1] IN [[1]], 'a' IN 'abc'", "MATCH (n) RETURN n.age IS NULL, n.age IS NOT NULL, null IS NULL, n IS NULL",
        "MATCH (n) WHERE n.age IS NULL OR n.nope IS NOT NULL RETURN n", "MATCH (n) WHERE n.name LIKE 'A%' RETURN n", "MATCH (n) WHERE n.name IN ['Alice'] RETURN n", "MATCH (n) WHERE n.age IN [30, null, 'a', 1.5] RETURN n",
        "MATCH (n) WHERE n.age IN $list RETURN n", "MATCH (n) WHERE n.age IN n.tags RETURN n", "MATCH (n) WHERE n.tags IN n.tags RETURN n", "MATCH (n) WHERE id(n) IN [0, 1, -1, 9223372036854775807] RETURN n", "MATCH (n) WHERE id(n) = -1 RETURN n",
        "MATCH (n) WHERE id(n) = 1.5 RETURN n", "MATCH (n) WHERE id(n) = 'a' RETURN n", "MATCH (n) WHERE id(n) = null RETURN n", "MATCH (n) WHERE id(n) > 9223372036854775806 RETURN n", "MATCH (n) WHERE id(n) + 9223372036854775807 > 0 RETURN n",
        "MATCH (n)-[r]->(m) WHERE id(r) = 9223372036854775807 RETURN r", "MATCH (n)-[r]->(m) WHERE id(r) * 9223372036854775807 > 1 RETURN r", "MATCH (n)-[r]->(m) RETURN id(n) - id(m) - 9223372036854775807 - 2",
    ] {
        add!("semantic", 1, q.to_string());
        add!("semantic", 0, q.to_string());
        if q.contains("count(*)") {
            add!("semantic", 1, q.replace("count(*)", "count(n)"));
        }
    }
    // ---- many MATCH clauses (join ordering) ----------------------------------------------------
    for k in [2usize, 5, 8, 12, 64, 65, 70, 130, 300] {
        v.push(Input::new(lang, 1, "many-match", super::chain("", "MATCH (n:Nope)", " ", " RETURN n", k)));
        let distinct: String = (0..k).map(|i| format!("MATCH (n{i}:Nope) ")).collect();
        v.push(Input::new(lang, 1, "many-match", format!("{distinct}RETURN n0")));
        let pats: String = (0..k).map(|i| format!("(n{i}:Nope)")).collect::<Vec<_>>().join(", ");
        v.push(Input::new(lang, 1, "many-match", format!("MATCH {pats} RETURN n0")));
    }
    // ---- dense clique: bounded variable length (must return), joins ------------------------
    for q in [
        "MATCH (a:K)-[:KNOWS*1..2]->(b) RETURN count(*)", "MATCH (a:K {id: 0})-[:KNOWS*1..3]->(b) RETURN count(*)", "MATCH (a:K {id: 0})-[:KNOWS*3]->(b) RETURN count(*)", "MATCH (a:K)-[:KNOWS*0..1]-(b) RETURN count(*)",
        "MATCH (a:K)-[r]->(b)-[s]->(c)-[t]->(d) RETURN count(*)", "MATCH (a:K), (b:K), (c:K) RETURN count(*)", "MATCH p = (a:K {id: 0})-[:KNOWS*1..3]->(b:K {id: 5}) RETURN count(p)",
        "MATCH p = shortestPath((a:K {id: 0})-[:KNOWS*..3]->(b:K {id: 5})) RETURN p", "MATCH p = allShortestPaths((a:K {id: 0})-[:KNOWS*..3]-(b:K {id: 5})) RETURN count(p)", "MATCH (a:K)-[r:KNOWS]->(b) RETURN sum(r.w), max(r.w) * 2",
        "MATCH (a:K)-[r:KNOWS*2]->(b) RETURN r", "MATCH (a:K)-[r:KNOWS*1..2]->(b) WHERE a.id < b.id RETURN a.id, b.id, count(*) ORDER BY count(*) DESC LIMIT 3", "MATCH (a:K)-[:KNOWS]->(b)-[:KNOWS]->(a) RETURN count(*)",
        "MATCH (a:K)-[:KNOWS]->(b) DETACH DELETE a", "MATCH (a:K)-[r:KNOWS]->(b) DELETE r", "MATCH (a:K)-[:KNOWS]->(b) SET a.id = a.id + b.id", "MATCH (a:K)-[:KNOWS]->(b) MERGE (a)-[:R2]->(b)", "MATCH (a:K), (b:K) CREATE (a)-[:KNOWS]->(b)",
    ] {
        // GQL has no count(*)
        add!("clique", 2, q.replace("count(*)", "count(a)"));
    }
    // ---- unbounded variable length over a sparse cycle (3-ring, out-degree 1): must return ----
    for q in [
        "MATCH (a:Ring {id: 0})-[:NEXT*]->(b) RETURN count(b)", "MATCH (a:Ring {id: 0})-[*]->(b) RETURN count(b)", "MATCH (a:Ring)-[:NEXT*2..]->(b) RETURN count(b)",
        "MATCH (a:Ring {id: 0})-[:NEXT*1..]->(b:Ring {id: 0}) RETURN count(b)", "MATCH (a:Ring {id: 1})-[:NEXT*0..]->(b) RETURN count(b)", "MATCH (a:Ring {id: 0})-[:NEXT*]-(b) RETURN count(b)",
        "MATCH (a:Ring {id: 0})<-[:NEXT*]-(b) RETURN count(b)", "MATCH (a:Ring {id: 0})-[r:NEXT*]->(b) RETURN b.id LIMIT 1", "MATCH (a:Ring {id: 0})-[:NEXT*]->(b)-[:NEXT*]->(c) RETURN count(c)",
    ] {
        v.push(Input::new(lang, 1, "varlen-sparse-cycle", q.to_string()).cons("varlen-sparse-cycle"));
    }
    // ---- explosive: unbounded variable length on the dense clique (each alone) -----------
    for (c, q) in [
        ("varlen-unbounded", "MATCH (a:K {id: 0})-[:KNOWS*]->(b:K {id: 5}) RETURN count(*)"),
        ("varlen-unbounded", "MATCH (a:K {id: 0})-[:KNOWS*..4000000000]->(b:K {id: 5}) RETURN count(*)"),
        ("varlen-unbounded", "MATCH p = (a:K {id: 0})-[:KNOWS*1..]->(b:K {id: 5}) RETURN p LIMIT 1"),
        ("shortestpath-unbounded", "MATCH p = shortestPath((a:K {id: 0})-[:KNOWS*]->(b:K {id: 5})) RETURN p"),
        ("shortestpath-unbounded", "MATCH p = allShortestPaths((a:K {id: 0})-[:KNOWS*]-(b:K {id: 5})) RETURN count(p)"),
        ("cartesian-product", "MATCH (a), (b), (c), (d), (e), (f) RETURN count(*)"),
        ("join-order-exponential", JOIN45),
        ("range-huge", "UNWIND range(0, 9223372036854775807) AS i RETURN count(i)"),
        ("range-huge", "MATCH (n:K {id: 0}) RETURN size(range(0, 100000000000))"),
    ] {
        v.push(Input::new(lang, 2, "explosive", q.replace("count(*)", "count(a)")).cons(c));
    }
}
