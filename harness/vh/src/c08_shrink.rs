//! C08/C11 shared: cheap shrinking of a failing (graph, query) pair. Greedy first-success
//! passes over a fixed, ordered list of single-step simplifications, bounded by a budget of
//! re-executions. The order of the candidate list is what makes the result canonical.

use super::ast::*;
use super::graph::GraphSpec;
use grafeo_common::types::Value;

fn term_shrinks(t: &Term) -> Vec<Term> {
    match t {
        Term::Ar(_, a, b) => {
            let mut v = Vec::new();
            if matches!(**a, Term::Prop(..) | Term::Ar(..)) {
                v.push((**a).clone());
            }
            if matches!(**b, Term::Prop(..) | Term::Ar(..)) {
                v.push((**b).clone());
            }
            v
        }
        _ => vec![],
    }
}

pub fn canon_atom(kind: u8) -> Pred {
    // 0: always true, 1: always false, 2: always unknown (`zz` is never set)
    match kind {
        0 => Pred::Cmp(CmpOp::Gt, Term::Prop(Var::N(0), "uid".into()), Term::Const(Value::Int64(0))),
        1 => Pred::Cmp(CmpOp::Lt, Term::Prop(Var::N(0), "uid".into()), Term::Const(Value::Int64(0))),
        _ => Pred::Cmp(CmpOp::Gt, Term::Prop(Var::N(0), "zz".into()), Term::Const(Value::Int64(0))),
    }
}

fn is_canon(p: &Pred) -> bool {
    (0..3).any(|k| *p == canon_atom(k))
}

fn is_atom(p: &Pred) -> bool {
    matches!(p, Pred::Cmp(..) | Pred::IsNull(..) | Pred::In(..) | Pred::Str(..))
}

/// all single-step simplifications of a predicate (root replaced by a child, a child
/// simplified, a term simplified, a list shortened, a bare NOT parenthesised)
pub fn pred_shrinks(p: &Pred) -> Vec<Pred> {
    let mut v = Vec::new();
    if is_canon(p) {
        return v;
    }
    if !is_atom(p) {
        // the whole sub-predicate replaced by a constant-valued atom
        for k in 0..3 {
            v.push(canon_atom(k));
        }
    }
    match p {
        Pred::And(a, b) | Pred::Or(a, b) => {
            v.push((**a).clone());
            v.push((**b).clone());
            let mk = |x: Pred, y: Pred| if matches!(p, Pred::And(..)) { Pred::And(Box::new(x), Box::new(y)) } else { Pred::Or(Box::new(x), Box::new(y)) };
            for s in pred_shrinks(a) {
                v.push(mk(s, (**b).clone()));
            }
            for s in pred_shrinks(b) {
                v.push(mk((**a).clone(), s));
            }
        }
        Pred::Not(a, bare) => {
            v.push((**a).clone());
            if *bare {
                v.push(Pred::Not(a.clone(), false));
            }
            for s in pred_shrinks(a) {
                let still_bare = *bare && matches!(s, Pred::Cmp(..));
                v.push(Pred::Not(Box::new(s), still_bare));
            }
        }
        Pred::PredIsNull(a) => {
            v.push((**a).clone());
            for s in pred_shrinks(a) {
                v.push(Pred::PredIsNull(Box::new(s)));
            }
        }
        Pred::Cmp(op, a, b) => {
            for s in term_shrinks(a) {
                v.push(Pred::Cmp(*op, s, b.clone()));
            }
            for s in term_shrinks(b) {
                v.push(Pred::Cmp(*op, a.clone(), s));
            }
            // a property on the right becomes a constant
            if let (Term::Prop(..), Term::Prop(..)) = (a, b) {
                v.push(Pred::Cmp(*op, a.clone(), Term::Const(Value::Int64(1))));
            }
        }
        Pred::IsNull(t, n) => {
            for s in term_shrinks(t) {
                v.push(Pred::IsNull(s, *n));
            }
        }
        Pred::In(t, l) => {
            if l.len() > 1 {
                v.push(Pred::In(t.clone(), l[..1].to_vec()));
                v.push(Pred::In(t.clone(), l[1..].to_vec()));
            }
        }
        Pred::Str(..) => {}
    }
    if is_atom(p) {
        for k in 0..3 {
            v.push(canon_atom(k));
        }
    }
    v
}

fn remap_var(v: Var, dn: usize, de: usize) -> Option<Var> {
    // dropping the first hop: node i -> i-1, edge i -> i-1
    match v {
        Var::N(i) => i.checked_sub(dn).map(Var::N),
        Var::E(i) => i.checked_sub(de).map(Var::E),
    }
}

fn remap_term(t: &Term, dn: usize, de: usize) -> Option<Term> {
    Some(match t {
        Term::Prop(v, k) => Term::Prop(remap_var(*v, dn, de)?, k.clone()),
        Term::Const(c) => Term::Const(c.clone()),
        Term::Ar(o, a, b) => Term::Ar(*o, Box::new(remap_term(a, dn, de)?), Box::new(remap_term(b, dn, de)?)),
    })
}

fn remap_pred(p: &Pred, dn: usize, de: usize) -> Option<Pred> {
    Some(match p {
        Pred::Cmp(o, a, b) => Pred::Cmp(*o, remap_term(a, dn, de)?, remap_term(b, dn, de)?),
        Pred::And(a, b) => Pred::And(Box::new(remap_pred(a, dn, de)?), Box::new(remap_pred(b, dn, de)?)),
        Pred::Or(a, b) => Pred::Or(Box::new(remap_pred(a, dn, de)?), Box::new(remap_pred(b, dn, de)?)),
        Pred::Not(a, b) => Pred::Not(Box::new(remap_pred(a, dn, de)?), *b),
        Pred::PredIsNull(a) => Pred::PredIsNull(Box::new(remap_pred(a, dn, de)?)),
        Pred::IsNull(t, n) => Pred::IsNull(remap_term(t, dn, de)?, *n),
        Pred::In(t, l) => Pred::In(remap_term(t, dn, de)?, l.clone()),
        Pred::Str(o, t, s) => Pred::Str(*o, remap_term(t, dn, de)?, s.clone()),
    })
}

fn remap_proj(p: &Proj, dn: usize, de: usize) -> Option<Proj> {
    Some(match p {
        Proj::Prop(v, k) => Proj::Prop(remap_var(*v, dn, de)?, k.clone()),
        Proj::Id(v) => Proj::Id(remap_var(*v, dn, de)?),
        Proj::Type(i) => Proj::Type(i.checked_sub(de)?),
        Proj::Labels(i) => Proj::Labels(i.checked_sub(dn)?),
    })
}

fn drop_first_hop(q: &Query) -> Option<Query> {
    if q.edges.is_empty() {
        return None;
    }
    let mut n = q.clone();
    n.nodes.remove(0);
    n.edges.remove(0);
    n.pred = match &q.pred {
        Some(p) => Some(remap_pred(p, 1, 1)?),
        None => None,
    };
    n.ret = match &q.ret {
        Ret::Plain { items, distinct } => Ret::Plain { items: items.iter().map(|p| remap_proj(p, 1, 1)).collect::<Option<Vec<_>>>()?, distinct: *distinct },
        Ret::Agg { keys, aggs } => Ret::Agg {
            keys: keys.iter().map(|p| remap_proj(p, 1, 1)).collect::<Option<Vec<_>>>()?,
            aggs: aggs
                .iter()
                .map(|a| {
                    Some(Agg {
                        f: a.f,
                        distinct: a.distinct,
                        arg: match &a.arg {
                            AggArg::Star => AggArg::Star,
                            AggArg::Var(v) => AggArg::Var(remap_var(*v, 1, 1)?),
                            AggArg::Prop(v, k) => AggArg::Prop(remap_var(*v, 1, 1)?, k.clone()),
                        },
                    })
                })
                .collect::<Option<Vec<_>>>()?,
        },
    };
    Some(n)
}

/// references of the return clause to a variable that no longer exists fall back to n0.uid
fn fix_ret(q: &mut Query) {
    let (nn, ne) = (q.nodes.len(), q.edges.len());
    let ok = |v: &Var| match v {
        Var::N(i) => *i < nn,
        Var::E(i) => *i < ne && q.edges[*i].len.is_none(),
    };
    let fixp = |p: &Proj| -> Proj {
        let good = match p {
            Proj::Prop(v, _) | Proj::Id(v) => ok(v),
            Proj::Type(i) => ok(&Var::E(*i)),
            Proj::Labels(i) => ok(&Var::N(*i)),
        };
        if good { p.clone() } else { Proj::Prop(Var::N(0), "uid".into()) }
    };
    q.ret = match &q.ret {
        Ret::Plain { items, distinct } => Ret::Plain { items: items.iter().map(fixp).collect(), distinct: *distinct },
        Ret::Agg { keys, aggs } => Ret::Agg {
            keys: keys.iter().map(fixp).collect(),
            aggs: aggs
                .iter()
                .map(|a| {
                    let good = match &a.arg {
                        AggArg::Star => true,
                        AggArg::Var(v) | AggArg::Prop(v, _) => ok(v),
                    };
                    if good { a.clone() } else { Agg { f: AggFn::Count, arg: AggArg::Var(Var::N(0)), distinct: false } }
                })
                .collect(),
        },
    };
}

fn drop_last_hop(q: &Query) -> Option<Query> {
    if q.edges.is_empty() {
        return None;
    }
    let mut n = q.clone();
    n.nodes.pop();
    n.edges.pop();
    fix_ret(&mut n);
    Some(n)
}

/// every reference of the return clause to node i / edge i is moved to n_last / n0
fn retarget_ret(q: &Query, to: usize) -> Query {
    let mut n = q.clone();
    let t = |p: &Proj| match p {
        Proj::Prop(_, _) | Proj::Id(_) | Proj::Type(_) | Proj::Labels(_) => Proj::Prop(Var::N(to), "uid".into()),
    };
    n.ret = match &q.ret {
        Ret::Plain { items, distinct } => Ret::Plain { items: items.iter().map(t).collect(), distinct: *distinct },
        Ret::Agg { keys, aggs } => Ret::Agg { keys: keys.iter().map(t).collect(), aggs: aggs.iter().map(|a| Agg { f: a.f, distinct: a.distinct, arg: match &a.arg { AggArg::Star => AggArg::Star, AggArg::Var(_) => AggArg::Var(Var::N(to)), AggArg::Prop(_, k) => AggArg::Prop(Var::N(to), k.clone()) } }).collect() },
    };
    n
}

/// ordered single-step simplifications of a query (only well-formed ones are returned)
pub fn query_shrinks(q: &Query) -> Vec<Query> {
    let mut out: Vec<Query> = Vec::new();
    let mut push = |mut c: Query| {
        c.fix_names();
        if c.well_formed() && c != *q {
            out.push(c);
        }
    };
    // 1. tail clauses
    if q.limit.is_some() {
        let mut c = q.clone();
        c.limit = None;
        push(c);
    }
    if q.skip.is_some() {
        let mut c = q.clone();
        c.skip = None;
        push(c);
    }
    if !q.order.is_empty() {
        let mut c = q.clone();
        c.order.clear();
        push(c);
        if q.order.len() > 1 {
            for i in 0..q.order.len() {
                let mut c = q.clone();
                c.order = vec![q.order[i].clone()];
                push(c);
            }
        }
        if q.order.iter().any(|o| o.desc) {
            let mut c = q.clone();
            c.order.iter_mut().for_each(|o| o.desc = false);
            push(c);
        }
    }
    if q.order_in_with {
        let mut c = q.clone();
        c.order_in_with = false;
        push(c);
    }
    // 2. predicate
    if let Some(p) = &q.pred {
        let mut c = q.clone();
        c.pred = None;
        push(c);
        for s in pred_shrinks(p) {
            let mut c = q.clone();
            c.pred = Some(s);
            push(c);
        }
    }
    // 3. return clause
    match &q.ret {
        Ret::Plain { items, distinct } => {
            if *distinct {
                let mut c = q.clone();
                c.ret = Ret::Plain { items: items.clone(), distinct: false };
                push(c);
            }
            if items.len() > 1 {
                for i in 0..items.len() {
                    let mut c = q.clone();
                    c.ret = Ret::Plain { items: vec![items[i].clone()], distinct: *distinct };
                    c.order = q.order.iter().filter(|o| o.col == i).map(|o| Order { col: 0, desc: o.desc }).collect();
                    push(c);
                }
            }
            for i in 0..items.len() {
                let simpler = match &items[i] {
                    Proj::Prop(v, k) if k != "uid" => Some(Proj::Prop(*v, "uid".into())),
                    Proj::Id(v) => Some(Proj::Prop(*v, "uid".into())),
                    Proj::Type(e) => Some(Proj::Prop(Var::E(*e), "uid".into())),
                    Proj::Labels(n) => Some(Proj::Prop(Var::N(*n), "uid".into())),
                    Proj::Prop(Var::E(_), _) => Some(Proj::Prop(Var::N(0), "uid".into())),
                    Proj::Prop(Var::N(j), _) if *j > 0 => Some(Proj::Prop(Var::N(0), "uid".into())),
                    _ => None,
                };
                if let Some(s) = simpler {
                    let mut c = q.clone();
                    let mut it = items.clone();
                    it[i] = s;
                    c.ret = Ret::Plain { items: it, distinct: *distinct };
                    push(c);
                }
            }
        }
        Ret::Agg { keys, aggs } => {
            for i in 0..keys.len() {
                let mut c = q.clone();
                let mut k = keys.clone();
                k.remove(i);
                c.ret = Ret::Agg { keys: k, aggs: aggs.clone() };
                c.order = q.order.iter().filter(|o| o.col >= keys.len()).map(|o| Order { col: o.col - 1, desc: o.desc }).collect();
                push(c);
            }
            if aggs.len() > 1 {
                for i in 0..aggs.len() {
                    let mut c = q.clone();
                    c.ret = Ret::Agg { keys: keys.clone(), aggs: vec![aggs[i].clone()] };
                    c.order = q.order.iter().filter(|o| o.col == keys.len() + i).map(|o| Order { col: keys.len(), desc: o.desc }).collect();
                    push(c);
                }
            }
            for i in 0..aggs.len() {
                if aggs[i].distinct {
                    let mut c = q.clone();
                    let mut a = aggs.clone();
                    a[i].distinct = false;
                    c.ret = Ret::Agg { keys: keys.clone(), aggs: a };
                    push(c);
                }
                if !(aggs[i].f == AggFn::Count && matches!(aggs[i].arg, AggArg::Var(Var::N(0)))) {
                    let mut c = q.clone();
                    let mut a = aggs.clone();
                    a[i] = Agg { f: AggFn::Count, arg: AggArg::Var(Var::N(0)), distinct: false };
                    c.ret = Ret::Agg { keys: keys.clone(), aggs: a };
                    push(c);
                }
                if let AggArg::Prop(v, k) = &aggs[i].arg {
                    if k != "uid" {
                        let mut c = q.clone();
                        let mut a = aggs.clone();
                        a[i].arg = AggArg::Prop(*v, "uid".into());
                        c.ret = Ret::Agg { keys: keys.clone(), aggs: a };
                        push(c);
                    }
                }
            }
            for i in 0..keys.len() {
                if let Proj::Prop(v, k) = &keys[i] {
                    if *v != Var::N(0) || k != "k" {
                        let mut c = q.clone();
                        let mut ks = keys.clone();
                        ks[i] = Proj::Prop(Var::N(0), "k".into());
                        c.ret = Ret::Agg { keys: ks, aggs: aggs.clone() };
                        push(c);
                    }
                }
            }
        }
    }
    // 3b. an aggregating query becomes a plain one
    if q.is_agg() {
        let mut c = q.clone();
        c.ret = Ret::Plain { items: vec![Proj::Prop(Var::N(0), "uid".into())], distinct: false };
        c.order.clear();
        push(c);
    }
    // 4. pattern
    if let Some(c) = drop_last_hop(q) {
        push(c);
    }
    if let Some(c) = drop_first_hop(q) {
        push(c);
    }
    if !q.edges.is_empty() {
        if let Some(c) = drop_first_hop(&retarget_ret(q, q.nodes.len() - 1)) {
            push(c);
        }
    }
    for i in 0..q.nodes.len() {
        if !q.nodes[i].labels.is_empty() {
            let mut c = q.clone();
            c.nodes[i].labels.clear();
            push(c);
            if q.nodes[i].labels.len() > 1 {
                for l in &q.nodes[i].labels {
                    let mut c = q.clone();
                    c.nodes[i].labels = vec![l.clone()];
                    push(c);
                }
            }
        }
    }
    for i in 0..q.edges.len() {
        let e = &q.edges[i];
        if let Some((lo, hi)) = e.len {
            let mut c = q.clone();
            c.edges[i].len = None;
            push(c);
            if hi != Some(lo) {
                let mut c = q.clone();
                c.edges[i].len = Some((lo, Some(lo.max(1))));
                push(c);
                if lo != 1 {
                    let mut c = q.clone();
                    c.edges[i].len = Some((1, hi));
                    push(c);
                }
            }
        }
        if !e.types.is_empty() {
            let mut c = q.clone();
            c.edges[i].types.clear();
            push(c);
            if e.types.len() > 1 {
                for t in &e.types {
                    let mut c = q.clone();
                    c.edges[i].types = vec![t.clone()];
                    push(c);
                }
            }
        }
        if e.dir != Dir::Out {
            let mut c = q.clone();
            c.edges[i].dir = Dir::Out;
            push(c);
        }
    }
    out
}

/// Shrink (graph, query) while `fails` keeps returning true. `fails` is called at most
/// `budget` times.
pub fn shrink(g: &GraphSpec, q: &Query, budget: usize, fails: &mut dyn FnMut(&GraphSpec, &Query) -> bool) -> (GraphSpec, Query, usize) {
    let mut g = g.clone();
    let mut q = q.clone();
    let mut used = 0usize;
    let q_pass = |g: &GraphSpec, q: &mut Query, used: &mut usize, fails: &mut dyn FnMut(&GraphSpec, &Query) -> bool| {
        'outer: loop {
            for c in query_shrinks(q) {
                if *used >= budget {
                    return;
                }
                *used += 1;
                if fails(g, &c) {
                    *q = c;
                    continue 'outer;
                }
            }
            return;
        }
    };
    q_pass(&g, &mut q, &mut used, fails);
    // graph: nodes in chunks (halves, quarters, ... singles), then edges likewise
    let mut chunk = g.nodes.len().div_ceil(2).max(1);
    while !g.nodes.is_empty() && used < budget {
        let mut i = 0;
        let mut any = false;
        while i < g.nodes.len() && used < budget {
            let hi = (i + chunk).min(g.nodes.len());
            let mut c = g.clone();
            for j in (i..hi).rev() {
                c = c.without_node(j);
            }
            used += 1;
            if fails(&c, &q) {
                g = c;
                any = true;
            } else {
                i = hi;
            }
        }
        if chunk == 1 {
            if !any {
                break;
            }
        } else {
            chunk = chunk.div_ceil(2);
        }
    }
    let mut chunk = g.edges.len().div_ceil(2).max(1);
    while !g.edges.is_empty() && used < budget {
        let mut i = 0;
        let mut any = false;
        while i < g.edges.len() && used < budget {
            let hi = (i + chunk).min(g.edges.len());
            let mut c = g.clone();
            for j in (i..hi).rev() {
                c = c.without_edge(j);
            }
            used += 1;
            if fails(&c, &q) {
                g = c;
                any = true;
            } else {
                i = hi;
            }
        }
        if chunk == 1 {
            if !any {
                break;
            }
        } else {
            chunk = chunk.div_ceil(2);
        }
    }
    // properties (non-uid), one at a time
    'props: for ni in 0..g.nodes.len() {
        let mut pi = 0;
        while pi < g.nodes[ni].props.len() {
            if g.nodes[ni].props[pi].0 == "uid" {
                pi += 1;
                continue;
            }
            if used >= budget {
                break 'props;
            }
            let mut c = g.clone();
            c.nodes[ni].props.remove(pi);
            used += 1;
            if fails(&c, &q) {
                g = c;
            } else {
                pi += 1;
            }
        }
    }
    // the smaller graph may allow further query simplification
    q_pass(&g, &mut q, &mut used, fails);
    (g, q, used)
}
