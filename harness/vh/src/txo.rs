//! C01 / C02 — random histories of *overlapping* sessions, judged by two executable models.
//!
//! The cell matrix (`txm.rs`) decides every (write kind, read path, scenario) once, on a
//! fresh database. What it cannot reach is the composition of many steps: several writers
//! open at once, readers that began at different epochs, a session that rolls back and begins
//! again, a second and third commit, writes that land on entities another open transaction
//! created. Here 2-4 real sessions interleave begin / write / read / commit / rollback / drop /
//! failed commit at statement granularity, and after every step every read path is asked
//! through one or all sessions.
//!
//! Two models answer every read:
//!   * `Spec`  — the specification: committed state; a transaction reads the state committed
//!               when it began plus its own writes; commit folds the transaction's effective
//!               writes into the committed state; rollback / drop / failed commit discard them.
//!   * `Dev`   — the specification with the *open findings* switched on as named deviation
//!               rules (DESIGN 1.3 scheme 2), i.e. what the unchanged tree is known to do:
//!               D1/D2  a version created by a transaction is stamped with the transaction's
//!                      start epoch and is visible to every reader whose viewing epoch is not
//!                      older, committed or not; property / label tables are updated in place;
//!               R1     rollback (drop, failed commit) only discards the versions the
//!                      transaction created;
//!               D7     SPARQL reads only the committed triple set, a transaction's triple
//!                      writes are buffered until commit.
//! Verdict per read:  got == Spec -> held;  got == Dev != Spec -> explained by open findings
//! (KNOWN-FINDING, attributed);  anything else -> VIOLATION with the whole history as witness.
//! With the rules in place the random histories are a regression oracle for the defective
//! regions too: a change that moves a known defect no longer equals `Dev`.

use crate::model::Model;
use crate::rng::{Rng, hash_str};
use crate::txm::{self, Fixture, PW, R, Regime};
use crate::util::catch;
use grafeo_common::types::Value;
use grafeo_engine::Session;
use serde_json::json;
use std::collections::{BTreeMap, BTreeSet};

type Triples = BTreeSet<(String, String, String)>;

fn i(x: i64) -> Value {
    Value::Int64(x)
}

/// Read paths judged in overlapping histories. Index-served filters (finding C01-D6: node
/// lists taken from the index without a visibility check), database-level counters (C01-D5)
/// and adjacency-only point lookups are decided by the matrix alone.
pub const OVERLAP_READS: &[R] = &[
    R::LabelScan, R::FullScan, R::LabelScanProps, R::Filter, R::LabelQ, R::ExpandUntyped, R::ExpandTyped, R::ExpandIn,
    R::TwoHop, R::VarLen, R::Count, R::EdgeProps, R::CypherLabel, R::GremlinLabel, R::GremlinOut, R::GraphqlLabel,
    R::Sparql, R::ApiGetNode, R::ApiGetProp, R::ApiBatch,
];

#[derive(Clone, Debug)]
enum Op {
    Stmt(PW),
    /// node created through `Session::create_node_with_props` (its engine id is learnt, so the
    /// point-lookup read paths cover it)
    ApiCreate { uid: u64, v: i64 },
}

impl Op {
    fn text(&self) -> String {
        match self {
            Op::Stmt(w) => w.text(),
            Op::ApiCreate { uid, v } => format!("create_node_with_props([P], uid={uid}, v={v}, iv={v})"),
        }
    }
    fn kind(&self) -> &'static str {
        match self {
            Op::ApiCreate { .. } => "api_create",
            Op::Stmt(w) => match w {
                PW::Insert { .. } | PW::InsertStyled { .. } => "insert",
                PW::CreateEdgeStyled { .. } => "create_edge",
                PW::SetV { .. } => "set",
                PW::RemoveV { .. } => "remove_prop",
                PW::AddLabel { .. } => "add_label",
                PW::RemoveLabel { .. } => "remove_label",
                PW::DeleteIsolated { .. } => "delete",
                PW::DetachDelete { .. } => "detach_delete",
                PW::CreateEdge { .. } => "create_edge",
                PW::Merge { .. } => "merge",
                PW::SparqlInsert { .. } | PW::SparqlDelete { .. } => "sparql",
            },
        }
    }
    /// does the statement find its target(s) in this view?
    fn effective(&self, view: &Model) -> bool {
        match self {
            Op::ApiCreate { .. } => true,
            Op::Stmt(w) => match w {
                PW::Insert { .. } | PW::InsertStyled { .. } | PW::SparqlInsert { .. } | PW::SparqlDelete { .. } | PW::Merge { .. } => true,
                PW::SetV { uid, .. } | PW::RemoveV { uid } | PW::AddLabel { uid, .. } | PW::RemoveLabel { uid, .. } | PW::DeleteIsolated { uid } | PW::DetachDelete { uid } => {
                    has_p(view, *uid)
                }
                PW::CreateEdge { a, b, .. } | PW::CreateEdgeStyled { a, b, .. } => has_p(view, *a) && has_p(view, *b),
            },
        }
    }
    /// apply to a model (graph part) — returns created (nodes, edges)
    fn apply(&self, m: &mut Model, t: &mut Triples) -> (Vec<u64>, Vec<u64>) {
        match self {
            Op::ApiCreate { uid, v } => {
                m.add_node(*uid, &["P"], &[("uid", i(*uid as i64)), ("v", i(*v)), ("iv", i(*v))]);
                (vec![*uid], vec![])
            }
            Op::Stmt(w) => w.apply_model(m, t),
        }
    }
    fn is_sparql(&self) -> bool {
        matches!(self, Op::Stmt(PW::SparqlInsert { .. } | PW::SparqlDelete { .. }))
    }
}

/// `MATCH (n:P {uid: X})` finds the node: present, still labelled P, uid property intact
fn has_p(view: &Model, uid: u64) -> bool {
    view.nodes.get(&uid).is_some_and(|n| n.labels.contains("P") && n.props.contains_key("uid"))
}

// ---------------------------------------------------------------- specification model

struct SpecTx {
    view: Model,
    tview: Triples,
    /// effective writes, in order (folded into the committed state at commit)
    ops: Vec<Op>,
}

struct Spec {
    committed: Model,
    tcommitted: Triples,
}

// ---------------------------------------------------------------- deviation model

#[derive(Clone, Copy, PartialEq, Eq, Debug)]
struct Vis {
    stamp: u64,
    /// None = SYSTEM (written outside a transaction)
    by: Option<u64>,
    /// epoch the (single) version was marked deleted at: the deleter's viewing epoch. Labels and
    /// properties are stripped in place at that moment; the version stays visible, stripped, to
    /// readers whose viewing epoch is older (store.rs delete_node_at_epoch)
    deleted: Option<u64>,
}

struct DevTx {
    serial: u64,
    start: u64,
    tbuf: Vec<Op>,
}

struct Dev {
    /// in-place tables: every entity that has a version, with its current labels / properties
    cur: Model,
    nvis: BTreeMap<u64, Vis>,
    evis: BTreeMap<u64, Vis>,
    t: Triples,
    epoch: u64,
    next_serial: u64,
}

impl Dev {
    fn visible(v: Vis, ctx: (u64, Option<u64>)) -> bool {
        if v.by == ctx.1 { v.deleted.is_none() } else { v.stamp <= ctx.0 && v.deleted.is_none_or(|d| d > ctx.0) }
    }
    fn view(&self, ctx: (u64, Option<u64>)) -> Model {
        let mut m = Model::default();
        for (u, n) in &self.cur.nodes {
            if Self::visible(self.nvis[u], ctx) {
                m.nodes.insert(*u, n.clone());
            }
        }
        for (u, e) in &self.cur.edges {
            if Self::visible(self.evis[u], ctx) && m.nodes.contains_key(&e.src) && m.nodes.contains_key(&e.dst) {
                m.edges.insert(*u, e.clone());
            }
        }
        m
    }
}

struct Sess {
    s: Session,
    spec: Option<SpecTx>,
    dev: Option<DevTx>,
    /// logical time of begin (for attribution only)
    began_at: usize,
}

#[derive(Clone, Copy, PartialEq, Eq, Debug)]
pub enum Mode {
    /// C01: read-heavy, every ending
    Isolation,
    /// C02: ending-heavy (rollback, drop, failed commit), full dump through a fresh observer after every ending
    Atomicity,
}

/// `fail_commit`: arms / disarms the `txmgr.commit` fail point.
pub fn overlap_history(rep: &mut crate::report::Report, seed: u64, case: u64, mode: Mode, fail_commit: &dyn Fn(bool)) {
    let stream = if mode == Mode::Isolation { "C01.overlap" } else { "C02.overlap" };
    let mut r = Rng::new(seed, stream, case);
    let regime = if r.chance(0.5) { Regime::Fresh } else { Regime::AfterCommit };
    let mut fx: Fixture = txm::fixture(regime);
    let mut spec = Spec { committed: fx.s0.clone(), tcommitted: fx.triples0.clone() };
    let mut dev = Dev {
        cur: fx.s0.clone(),
        nvis: fx.s0.nodes.keys().map(|u| (*u, Vis { stamp: 0, by: None, deleted: None })).collect(),
        evis: fx.s0.edges.keys().map(|u| (*u, Vis { stamp: 0, by: None, deleted: None })).collect(),
        t: fx.triples0.clone(),
        epoch: if regime == Regime::AfterCommit { 2 } else { 0 },
        next_serial: 1,
    };
    let nsess = 2 + r.below(3);
    let mut sess: Vec<Sess> = (0..nsess).map(|_| Sess { s: fx.db.session(), spec: None, dev: None, began_at: 0 }).collect();
    let mut hist: Vec<String> = vec![format!("regime={} sessions={nsess}", regime.name())];
    let mut next_uid = 500u64;
    let steps = 10 + r.below(if mode == Mode::Isolation { 40 } else { 30 });
    let mut kinds: BTreeSet<&'static str> = BTreeSet::new();
    let mut max_open = 0usize;
    let mut reads_in_deviation_zone = 0u64;
    let mut reads_hidden_correctly = 0u64;
    // logical times of the last foreign commit / autocommit write (attribution)
    let mut last_commit_at = 0usize;
    let deletes = case % 3 != 0; // a third of the histories without deletions (longer-lived entities)
    let mut residue = false; // some rollback left in-place changes behind (Dev != Spec on committed state)

    for step in 1..=steps {
        let k = r.below(nsess);
        let in_tx = sess[k].spec.is_some();
        let roll = r.below(100);
        let (p_begin, p_end) = if mode == Mode::Isolation { (14, 12) } else { (18, 22) };
        if !in_tx && roll < p_begin {
            match sess[k].s.begin_tx() {
                Ok(()) => {
                    sess[k].spec = Some(SpecTx { view: spec.committed.clone(), tview: spec.tcommitted.clone(), ops: vec![] });
                    sess[k].dev = Some(DevTx { serial: dev.next_serial, start: dev.epoch, tbuf: vec![] });
                    dev.next_serial += 1;
                    sess[k].began_at = step;
                    hist.push(format!("s{k}: begin"));
                }
                Err(e) => {
                    rep.deviation("overlap:begin_refused", json!({"error": e.to_string(), "history": hist}));
                    return;
                }
            }
        } else if in_tx && roll < p_end {
            // ending
            let ending = match r.below(if mode == Mode::Isolation { 10 } else { 8 }) {
                0..=4 => "commit",
                5 | 6 => "rollback",
                7 => "drop",
                _ => "failed_commit",
            };
            let ending = if mode == Mode::Atomicity && ending == "commit" && r.chance(0.3) { "failed_commit" } else { ending };
            kinds.insert(ending);
            hist.push(format!("s{k}: {ending}"));
            let stx = sess[k].spec.take().unwrap();
            let dtx = sess[k].dev.take().unwrap();
            let ok = match ending {
                "commit" => match sess[k].s.commit() {
                    Ok(()) => true,
                    Err(e) => {
                        rep.deviation("overlap:commit_refused", json!({"error": e.to_string(), "history": hist}));
                        return;
                    }
                },
                "rollback" => {
                    if let Err(e) = sess[k].s.rollback() {
                        rep.deviation("overlap:rollback_refused", json!({"error": e.to_string(), "history": hist}));
                        return;
                    }
                    false
                }
                "drop" => {
                    sess[k].s = fx.db.session();
                    false
                }
                _ => {
                    fail_commit(true);
                    let res = sess[k].s.commit();
                    fail_commit(false);
                    if res.is_ok() {
                        rep.deviation("overlap:failed_commit_returned_ok", json!({"history": hist}));
                        return;
                    }
                    false
                }
            };
            if ok {
                // Spec: fold the effective writes into the committed state
                for op in &stx.ops {
                    if op.effective(&spec.committed) {
                        op.apply(&mut spec.committed, &mut spec.tcommitted);
                    }
                }
                // Dev: versions stay as stamped; buffered triple writes are applied in order
                dev.epoch += 1;
                for op in &dtx.tbuf {
                    op.apply(&mut Model::default(), &mut dev.t);
                }
                last_commit_at = step;
            } else {
                // Spec: nothing remains. Dev (R1): only the versions the transaction created go.
                let gone_n: Vec<u64> = dev.nvis.iter().filter(|(_, v)| v.by == Some(dtx.serial)).map(|(u, _)| *u).collect();
                let gone_e: Vec<u64> = dev.evis.iter().filter(|(_, v)| v.by == Some(dtx.serial)).map(|(u, _)| *u).collect();
                for u in gone_e {
                    dev.cur.edges.remove(&u);
                    dev.evis.remove(&u);
                }
                for u in gone_n {
                    dev.cur.nodes.remove(&u);
                    dev.nvis.remove(&u);
                }
                if stx.ops.iter().any(|o| !matches!(o, Op::ApiCreate { .. } | Op::Stmt(PW::Insert { .. } | PW::InsertStyled { .. } | PW::CreateEdge { .. } | PW::CreateEdgeStyled { .. } | PW::SparqlInsert { .. } | PW::SparqlDelete { .. }))) {
                    residue = true;
                }
            }
        } else {
            // a write
            let ctx = match &sess[k].dev {
                Some(d) => (d.start, Some(d.serial)),
                None => (dev.epoch, None),
            };
            let dview = dev.view(ctx);
            // targets: prefer entities the writer can see in either model
            let mut uids: Vec<u64> = dview.nodes.iter().filter(|(_, n)| n.labels.contains("P")).map(|(u, _)| *u).collect();
            if let Some(stx) = &sess[k].spec {
                for (u, n) in &stx.view.nodes {
                    if n.labels.contains("P") && !uids.contains(u) {
                        uids.push(*u);
                    }
                }
            }
            let pick_uid = |r: &mut Rng| if uids.is_empty() { 1 } else { *r.pick(&uids) };
            let incident = |u: u64| {
                dev.cur.edges.values().any(|e| e.src == u || e.dst == u)
                    || sess[k].spec.as_ref().map_or(&spec.committed, |t| &t.view).edges.values().any(|e| e.src == u || e.dst == u)
            };
            let op = match r.below(if deletes { 16 } else { 14 }) {
                14 | 15 => {
                    let u = pick_uid(&mut r);
                    if incident(u) { Op::Stmt(PW::DetachDelete { uid: u }) } else { Op::Stmt(PW::DeleteIsolated { uid: u }) }
                }
                0 | 1 => {
                    next_uid += 1;
                    if r.chance(0.3) { Op::Stmt(PW::InsertStyled { uid: next_uid, v: r.range(0, 40), style: r.below(2) as u8 }) } else { Op::Stmt(PW::Insert { uid: next_uid, v: r.range(0, 40) }) }
                }
                2 | 3 => {
                    next_uid += 1;
                    Op::ApiCreate { uid: next_uid, v: r.range(0, 40) }
                }
                4 | 5 => Op::Stmt(PW::SetV { uid: pick_uid(&mut r), v: r.range(0, 40) }),
                6 => Op::Stmt(PW::RemoveV { uid: pick_uid(&mut r) }),
                7 => Op::Stmt(PW::AddLabel { uid: pick_uid(&mut r), l: *r.pick(&["Q", "X"]) }),
                8 => Op::Stmt(PW::RemoveLabel { uid: pick_uid(&mut r), l: *r.pick(&["Q", "X"]) }),
                9 | 10 | 11 => {
                    next_uid += 1;
                    if r.chance(0.4) {
                        Op::Stmt(PW::CreateEdgeStyled { euid: next_uid, a: pick_uid(&mut r), b: pick_uid(&mut r), style: [0u8, 2][r.below(2)] })
                    } else {
                        Op::Stmt(PW::CreateEdge { euid: next_uid, a: pick_uid(&mut r), b: pick_uid(&mut r) })
                    }
                }
                _ => {
                    if r.chance(0.6) { Op::Stmt(PW::SparqlInsert { s: r.below(4) as u64 }) } else { Op::Stmt(PW::SparqlDelete { s: r.below(4) as u64 }) }
                }
            };
            kinds.insert(op.kind());
            hist.push(format!("s{k}{}: {}", if in_tx { "*" } else { "" }, op.text()));
            // engine
            let res: Result<(), String> = match &op {
                Op::Stmt(w) => w.run(&sess[k].s),
                Op::ApiCreate { uid, v } => {
                    let s = &sess[k].s;
                    match catch(|| s.create_node_with_props(&["P"], [("uid", i(*uid as i64)), ("v", i(*v)), ("iv", i(*v))])) {
                        Ok(id) => {
                            fx.node_id.insert(*uid, id);
                            Ok(())
                        }
                        Err(p) => Err(format!("PANIC {}", p.site)),
                    }
                }
            };
            if let Err(e) = res {
                let kind = if e.starts_with("PANIC") { e.clone() } else { "error".to_string() };
                rep.deviation(&format!("overlap:write_failed|{}|{kind}", op.kind()), json!({"error": e, "history": hist}));
                return;
            }
            // Spec
            match &mut sess[k].spec {
                Some(stx) => {
                    if op.effective(&stx.view) {
                        op.apply(&mut stx.view, &mut stx.tview);
                        stx.ops.push(op.clone());
                    }
                }
                None => {
                    if op.effective(&spec.committed) {
                        op.apply(&mut spec.committed, &mut spec.tcommitted);
                    }
                    last_commit_at = step;
                }
            }
            // Dev
            if op.is_sparql() {
                match &mut sess[k].dev {
                    Some(d) => d.tbuf.push(op.clone()),
                    None => {
                        op.apply(&mut Model::default(), &mut dev.t);
                    }
                }
            } else if let Op::Stmt(PW::DeleteIsolated { uid } | PW::DetachDelete { uid }) = &op {
                if op.effective(&dview) {
                    if matches!(op, Op::Stmt(PW::DetachDelete { .. })) {
                        // delete_node_edges: every incident edge, tombstoned in place for everybody
                        let gone: Vec<u64> = dev.cur.edges.iter().filter(|(_, e)| e.src == *uid || e.dst == *uid).map(|(u, _)| *u).collect();
                        for e in gone {
                            dev.cur.edges.remove(&e);
                            dev.evis.remove(&e);
                        }
                    }
                    let n = dev.cur.nodes.get_mut(uid).unwrap();
                    n.labels.clear();
                    n.props.clear();
                    dev.nvis.get_mut(uid).unwrap().deleted = Some(ctx.0);
                }
            } else if op.effective(&dview) {
                let (cn, ce) = op.apply(&mut dev.cur, &mut Triples::new());
                let vis = Vis { stamp: ctx.0, by: ctx.1, deleted: None };
                for u in cn {
                    dev.nvis.insert(u, vis);
                }
                for u in ce {
                    dev.evis.insert(u, vis);
                }
            }
        }
        max_open = max_open.max(sess.iter().filter(|s| s.spec.is_some()).count());

        // ---- reads: one random session after every step, all sessions now and then
        let readers: Vec<usize> = if r.chance(0.25) { (0..nsess).collect() } else { vec![r.below(nsess)] };
        let known_nodes: Vec<u64> = fx.node_id.keys().copied().collect();
        let known_edges: Vec<u64> = fx.edge_id.keys().copied().collect();
        for q in readers {
            let ctx = match &sess[q].dev {
                Some(d) => (d.start, Some(d.serial)),
                None => (dev.epoch, None),
            };
            let dview = dev.view(ctx);
            let (sview, stv): (&Model, &Triples) = match &sess[q].spec {
                Some(stx) => (&stx.view, &stx.tview),
                None => (&spec.committed, &spec.tcommitted),
            };
            rep.eval();
            let others_open = sess.iter().enumerate().any(|(j, s)| j != q && s.spec.is_some());
            for rd in OVERLAP_READS {
                let got = rd.run(&sess[q].s, &fx);
                let exp_spec = rd.model(sview, stv, &known_nodes, &known_edges);
                if got == exp_spec {
                    if others_open && dev.cur.nodes.len() > dview.nodes.len() {
                        reads_hidden_correctly += 1;
                    }
                    continue;
                }
                // the range-served filter takes its node list from find_nodes_in_range ∩ nodes_by_label
                // without the reader's visibility check (planner.rs plan_range_filter; the matrix lists
                // these cells under C01-D1/D2): every version that exists is returned
                let exp_dev = if *rd == R::Filter {
                    rd.model(&dev.cur, &dev.t, &known_nodes, &known_edges)
                } else if *rd == R::FullScan {
                    // the unlabelled scan starts from node_ids() (= visible at the store's current
                    // epoch): a deleted node, which older snapshots still see (stripped) through
                    // point lookups, is never enumerated
                    let mut m = dview.clone();
                    m.nodes.retain(|u, _| dev.nvis[u].deleted.is_none());
                    rd.model(&m, &dev.t, &known_nodes, &known_edges)
                } else {
                    rd.model(&dview, &dev.t, &known_nodes, &known_edges)
                };
                if got == exp_dev {
                    reads_in_deviation_zone += 1;
                    let rule = if *rd == R::Sparql {
                        "C01-D7"
                    } else if others_open {
                        "C01-D1"
                    } else if sess[q].spec.is_some() && last_commit_at > sess[q].began_at {
                        "C01-D2"
                    } else if residue {
                        "C02-R1"
                    } else {
                        "C01-D1"
                    };
                    rep.known_rule(rule, &format!("overlap:{}", rd.name()));
                    rep.count(&format!("overlap.explained_by.{rule}"), 1);
                    continue;
                }
                let kind = if got.starts_with("ERR:") { "error" } else if got.starts_with("PANIC:") { "panic" } else { "wrong_answer" };
                if *rd == R::TwoHop && kind == "error" && got.contains("Column not found") && exp_dev.is_empty() {
                    // finding Q3: a two-hop pattern that yields no rows (an expand step without output) fails
                    rep.deviation("overlap:two_hop|error|no_rows", json!({"got": got, "history": hist}));
                    continue;
                }
                rep.deviation(
                    &format!("overlap:{}|{kind}", rd.name()),
                    json!({"read": rd.name(), "reader": format!("s{q}"), "reader_in_tx": sess[q].spec.is_some(),
                           "expected_by_specification": exp_spec, "expected_with_open_findings": exp_dev, "got": got,
                           "seed": seed, "case": case, "mode": format!("{mode:?}"), "history": hist}),
                );
                return;
            }
        }
    }
    rep.count("overlap.histories", 1);
    rep.count("overlap.reads_in_deviation_zone", reads_in_deviation_zone);
    rep.count("overlap.reads_with_foreign_versions_hidden", reads_hidden_correctly);
    rep.count(&format!("overlap.max_open_transactions.{max_open}"), 1);
    if max_open >= 2 && kinds.len() >= 4 {
        rep.nontrivial(hash_str(&hist.join(";")));
    }
    if case < 2 {
        rep.sample(json!({"overlap_history": hist}));
    }
}

/// The deviation model is exact only for the set of findings it was written against.
pub fn rules_as_modelled(rep: &crate::report::Report) -> bool {
    ["C01-D1", "C01-D2", "C01-D7", "C02-R1"].iter().all(|id| rep.findings.rule_open(id))
}
