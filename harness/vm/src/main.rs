//! Small workloads over the code that contains `unsafe` or shared mutable state, sized for
//! Miri (undefined behaviour + data race interpreter) and ThreadSanitizer. Each workload also
//! asserts its own functional outcome, so a run is an oracle, not just a smoke test.
//! usage: vm <arena|arena_threads|property|rdf_threads|buffer_threads|store_threads|all> [seed]

use grafeo_common::memory::arena::{Arena, ArenaAllocator};
use grafeo_common::memory::buffer::{BufferManager, MemoryRegion};
use grafeo_common::types::{EpochId, NodeId, PropertyKey, Value};
use grafeo_core::graph::lpg::{LpgStore, PropertyStorage};
use grafeo_core::graph::rdf::{RdfStore, Term, Triple};
use std::sync::Arc;

struct X(u64);
impl X {
    fn next(&mut self) -> u64 {
        self.0 ^= self.0 << 13;
        self.0 ^= self.0 >> 7;
        self.0 ^= self.0 << 17;
        self.0
    }
}

fn arena(seed: u64) {
    let mut r = X(seed | 1);
    let a = Arena::with_chunk_size(EpochId::new(1), 256);
    let mut refs: Vec<(*const u64, u64)> = Vec::new();
    for i in 0..200u64 {
        match r.next() % 3 {
            0 => {
                let v = a.alloc_value(i);
                refs.push((v as *const u64, i));
            }
            1 => {
                let n = (r.next() % 40) as usize;
                let data: Vec<u32> = (0..n as u32).collect();
                let s = a.alloc_slice(&data);
                assert_eq!(s, &data[..]);
            }
            _ => {
                let size = 1 + (r.next() % 300) as usize;
                let align = 1usize << (r.next() % 5);
                let p = a.alloc(size, align);
                assert_eq!(p.as_ptr() as usize % align, 0);
                // write the whole allocation
                unsafe { std::ptr::write_bytes(p.as_ptr(), 0xAB, size) };
            }
        }
    }
    // earlier values are still intact (no overlap between allocations)
    for (p, v) in refs {
        assert_eq!(unsafe { *p }, v);
    }
    assert!(a.total_used() <= a.total_allocated());
    println!("arena ok");
}

fn arena_threads(seed: u64) {
    let al = Arc::new(ArenaAllocator::with_chunk_size(512));
    let mut hs = Vec::new();
    for t in 0..3u64 {
        let al = Arc::clone(&al);
        hs.push(std::thread::spawn(move || {
            let mut r = X(seed ^ (t + 1) * 7919 | 1);
            for i in 0..60u64 {
                if t == 0 && r.next() % 10 == 0 {
                    al.new_epoch();
                }
                {
                    let e = al.current_epoch();
                    let arena = al.arena(e);
                    let v = arena.alloc_value(i * 1000 + t);
                    assert_eq!(*v, i * 1000 + t);
                }
                let p = al.alloc(16, 8);
                unsafe { std::ptr::write_bytes(p.as_ptr(), t as u8, 16) };
            }
        }));
    }
    for h in hs {
        h.join().unwrap();
    }
    println!("arena_threads ok");
}

fn property(seed: u64) {
    let mut r = X(seed | 1);
    let ps: PropertyStorage<NodeId> = PropertyStorage::new();
    let k = PropertyKey::new("k");
    let mut model = std::collections::BTreeMap::new();
    for i in 0..300u64 {
        let id = r.next() % 40;
        match r.next() % 5 {
            0..=2 => {
                let v = match r.next() % 4 {
                    0 => Value::Int64((r.next() % 100) as i64),
                    1 => Value::Bool(r.next() % 2 == 0),
                    2 => Value::String(format!("s{}", r.next() % 5).into()),
                    _ => Value::Float64((r.next() % 7) as f64 / 2.0),
                };
                ps.set(NodeId::new(id), k.clone(), v.clone());
                model.insert(id, v);
            }
            3 => {
                ps.remove(NodeId::new(id), &k);
                model.remove(&id);
            }
            _ => {
                if i % 50 == 49 {
                    ps.compress_all();
                }
            }
        }
        let ids: Vec<NodeId> = (0..40).map(NodeId::new).collect();
        let batch = ps.get_batch(&ids, &k);
        for (j, got) in batch.iter().enumerate() {
            assert_eq!(got.as_ref(), model.get(&(j as u64)), "id {j}");
        }
    }
    println!("property ok");
}

fn rdf_threads(seed: u64) {
    let st = Arc::new(RdfStore::new());
    let mut hs = Vec::new();
    for t in 0..3u64 {
        let st = Arc::clone(&st);
        hs.push(std::thread::spawn(move || {
            let mut r = X(seed ^ (t + 1) * 104_729 | 1);
            for _ in 0..40 {
                let tr = Triple::new(Term::iri(format!("http://s{}", r.next() % 2)), Term::iri("http://p"), Term::iri(format!("http://o{}", r.next() % 2)));
                if r.next() % 3 == 0 {
                    st.remove(&tr);
                } else {
                    st.insert(tr);
                }
                let _ = st.len();
            }
        }));
    }
    for h in hs {
        h.join().unwrap();
    }
    assert!(st.len() <= 4);
    println!("rdf_threads ok");
}

fn buffer_threads(seed: u64) {
    let bm = BufferManager::with_budget(10_000);
    let mut hs = Vec::new();
    for t in 0..3u64 {
        let bm = Arc::clone(&bm);
        hs.push(std::thread::spawn(move || {
            let mut r = X(seed ^ (t + 1) * 31 | 1);
            let mut gs = Vec::new();
            for _ in 0..60 {
                if r.next() % 2 == 0 {
                    if let Some(g) = bm.try_allocate(500 + (r.next() % 3000) as usize, MemoryRegion::ExecutionBuffers) {
                        gs.push(g);
                    }
                } else if !gs.is_empty() {
                    let i = (r.next() as usize) % gs.len();
                    drop(gs.swap_remove(i));
                }
            }
        }));
    }
    for h in hs {
        h.join().unwrap();
    }
    assert_eq!(bm.allocated(), 0, "grants must all be returned");
    println!("buffer_threads ok");
}

fn store_threads(seed: u64) {
    let st = Arc::new(LpgStore::new());
    let shared: Vec<NodeId> = (0..3).map(|_| st.create_node(&["S"])).collect();
    let mut hs = Vec::new();
    for t in 0..3u64 {
        let st = Arc::clone(&st);
        let shared = shared.clone();
        hs.push(std::thread::spawn(move || {
            let mut r = X(seed ^ (t + 1) * 65_537 | 1);
            let mut own = Vec::new();
            for _ in 0..30 {
                match r.next() % 6 {
                    0 => own.push(st.create_node(&["A"])),
                    1 => {
                        st.add_label(shared[(r.next() % 3) as usize], "L");
                    }
                    2 => {
                        st.remove_label(shared[(r.next() % 3) as usize], "L");
                    }
                    3 => st.set_node_property(shared[(r.next() % 3) as usize], "k", Value::Int64((r.next() % 5) as i64)),
                    4 => {
                        st.create_edge(shared[0], shared[(r.next() % 3) as usize], "R");
                    }
                    _ => {
                        if let Some(n) = own.pop() {
                            st.delete_node(n);
                        }
                        let _ = st.nodes_by_label("A").len() + st.node_count();
                    }
                }
            }
        }));
    }
    for h in hs {
        h.join().unwrap();
    }
    println!("store_threads ok");
}

fn main() {
    let args: Vec<String> = std::env::args().collect();
    let which = args.get(1).map_or("all", |s| s.as_str());
    let seed: u64 = args.get(2).and_then(|s| s.parse().ok()).unwrap_or(1);
    let all = which == "all";
    if all || which == "arena" {
        arena(seed);
    }
    if all || which == "arena_threads" {
        arena_threads(seed);
    }
    if all || which == "property" {
        property(seed);
    }
    if all || which == "rdf_threads" {
        rdf_threads(seed);
    }
    if all || which == "buffer_threads" {
        buffer_threads(seed);
    }
    if all || which == "store_threads" {
        store_threads(seed);
    }
}
