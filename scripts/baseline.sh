#!/usr/bin/env bash
# Runs the repository's pinned baseline suite with the verification guard OFF
# (no --cfg grafeo_verif) and prints a pass/fail summary.
cd /repo || exit 2
export CARGO_NET_OFFLINE=true
unset RUSTFLAGS
out=${1:-/tmp/baseline.log}
cargo nextest run --workspace --no-fail-fast --tool-config-file pb:/w/lib/nextest.toml --profile pb --test-threads 8 --offline >"$out" 2>&1
rc=$?
grep -E "Summary|FAIL|tests run" "$out" | tail -20
exit $rc
