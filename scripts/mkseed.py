#!/usr/bin/env python3
"""mkseed.py <seed-name> <property> <src-dir> <needs> <detected_by> : file a confirmed seeded change under /verif/seeded/<seed-name>/"""
import sys, json, os, shutil, re, glob
name, prop, src, needs, detected = sys.argv[1:6]
cname = sys.argv[6] if len(sys.argv) > 6 else name
dst = f"/verif/seeded/{name}"
os.makedirs(dst, exist_ok=True)
for f in ("patch.diff", "demo.rs", "notes.md"):
    shutil.copy(os.path.join(src, f), os.path.join(dst, f))
confirm = ""
for log in glob.glob("/tmp/seedres/*.log"):
    for l in open(log):
        if l.startswith(f"CONFIRM {cname} "):
            confirm = l.strip()
m = re.search(r"demo_with_change_rc=(\S+) demo_without_change_rc=(\S+) suite_rc=(\S+)\s+(.*)", confirm)
meta = {
    "seed": name, "property": prop, "breaks": "see notes.md",
    "needs_to_manifest": needs,
    "origin": "written by a fresh sub-agent that saw only the property text and its own scratch worktree of /repo",
    "confirmed_by_integrator": {
        "demo_fails_with_change": bool(m and m.group(1) not in ("0",)),
        "demo_passes_without_change": bool(m and m.group(2) == "0"),
        "existing_suite_with_change": (re.search(r"(\d+ tests run: \d+ passed)", m.group(4)).group(1) if m and re.search(r"(\d+ tests run: \d+ passed)", m.group(4)) else "not run"),
        "log": confirm,
    },
    "detected_by": detected,
    "how_run": "scripts/seeddetect.sh <seed dir> <name> <check ids> (applies the patch in a scratch worktree, runs scripts/check_against.sh, undoes it)",
}
json.dump(meta, open(os.path.join(dst, "meta.json"), "w"), indent=1)
print(dst, meta["confirmed_by_integrator"])
