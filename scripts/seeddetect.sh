#!/usr/bin/env bash
# seeddetect.sh <seed-out-dir> <seed-name> <check ids...>  — apply a seeded change in /tmp/cw, run the quick tier
# Needs the scratch worktree first:  git -C /repo worktree add --detach /tmp/cw HEAD   (remove it afterwards:
#   git -C /repo worktree remove --force /tmp/cw; rm -rf /tmp/vh-alt* /tmp/seedres)
# of the given checks against it (scripts/check_against.sh), undo the change.
src="$1"; name="$2"; shift 2
out=/tmp/seedres/$name; mkdir -p "$out"
cd /tmp/cw || exit 2
git checkout -q -- .
git apply "$src/patch.diff" 2>/dev/null || git apply -3 "$src/patch.diff" || patch -p1 --no-backup-if-mismatch < "$src/patch.diff" || { echo "DETECT $name patch does not apply"; git checkout -q -- .; exit 2; }
for id in "$@"; do
  s=$(date +%s)
  VH_OUT=$out/vh-$id /verif/scripts/check_against.sh /tmp/cw "$id" --tier ${TIER:-quick} > "$out/detect_$id.log" 2>&1
  rc=$?
  echo "DETECT $name $id rc=$rc t=$(( $(date +%s) - s ))s $(grep -c '^VIOLATION' "$out/detect_$id.log") violations: $(grep '^VIOLATION' "$out/detect_$id.log" | sed 's/.*signature=//' | head -4 | tr '\n' ' ' | cut -c1-400)"
done
git checkout -q -- . ; git reset -q
