#!/usr/bin/env python3
"""Development-time helper (NOT run by any check): takes the VIOLATION signatures of a C01/C02 run
on the unchanged tree -- after each one has been confirmed as genuine engine behaviour -- and
groups the failing matrix cells by root cause into /verif/known_findings.d/<ID>.json.

usage: gen_tx_findings.py C01 < output-of-check
"""
import sys, json, re, collections

prop = sys.argv[1]
sigs = []
for line in sys.stdin:
    m = re.search(r'VIOLATION property=%s .*signature=(.*)$' % prop, line.strip())
    if m:
        sigs.append(m.group(1))

GROUPS = collections.OrderedDict()
def add(gid, what, where, sig):
    g = GROUPS.setdefault(gid, {"what": what, "where": where, "sigs": []})
    g["sigs"].append(sig)

DB_LEVEL = ("db_counts", "db_iter_nodes")
for s in sigs:
    if s.startswith("cell:"):
        body, outcome = s[5:].rsplit("=", 1)
        w, r, scobs, regime = body.split("|")
        sc = scobs.split(".")[0]
        if w == "delete_edge":
            add(f"{prop}-Q1", "DELETE on an edge variable is planned as DeleteNode (no front end ever emits DeleteEdge): the edge stays, and the node whose id equals the edge's id is deleted instead", "crates/grafeo-engine/src/query/gql_translator.rs:199-207, 850-865 (delete clauses always build DeleteNodeOp)", s)
        elif w == "create_edge_cypher":
            add(f"{prop}-Q4", "Cypher CREATE of a relationship between variables bound by a preceding MATCH (MATCH (a..),(b..) CREATE (a)-[r:R]->(b)) creates two fresh, empty nodes and connects those; the matched nodes get no edge (the Cypher translator emits CreateNode for every node of a CREATE path, bound or not)", "crates/grafeo-engine/src/query/cypher_translator.rs:849-920 (translate_create_pattern)", s)
        elif w == "set_edge_prop":
            add(f"{prop}-Q2", "SET on an edge variable writes the property to the node whose id equals the edge's id; the edge is unchanged", "crates/grafeo-core/src/execution/operators/mutation.rs (SetPropertyOperator treats every entity column as a node id)", s)
        elif r == "two_hop" and outcome.startswith("error"):
            add(f"{prop}-Q3", "a two-hop pattern whose first expand produces no rows fails with 'Column not found' instead of returning no rows", "crates/grafeo-core/src/execution/operators/expand.rs / project.rs (empty chunk loses columns)", s)
        elif w.startswith("sparql"):
            add(f"{prop}-D7", "SPARQL inside a transaction: INSERT/DELETE DATA are buffered per transaction but queries read only the committed triple set, so a transaction does not see its own triple writes; rollback/drop simply forget the buffer", "crates/grafeo-engine/src/query/planner_rdf.rs:1607 (scan uses RdfStore::find), session.rs commit applies the buffer", s)
        elif r in DB_LEVEL and prop == "C01":
            add(f"{prop}-D5", "database-level readers (node_count/edge_count/iter_nodes/iter_edges) read at the store's epoch without regard to who created a version: versions of open (uncommitted) transactions are counted and iterated", "crates/grafeo-core/src/graph/lpg/store.rs:1581-1650, 2355-2410 (visible_at(current_epoch) only)", s)
        elif prop == "C01" and (sc.startswith("dirty_") or scobs == "snapshot_across_epoch_bump.read_while_foreign_open"):
            add("C01-D1", "dirty reads: a version created inside transaction T is stamped with T's start epoch and property/label/adjacency tables are updated in place, so other sessions see T's uncommitted INSERT/CREATE/SET/REMOVE/DELETE/label changes before T commits", "crates/grafeo-engine/src/session.rs:713-747, crates/grafeo-core/src/execution/operators/mutation.rs, crates/grafeo-core/src/graph/lpg/store.rs:847-905,1368-1530 (single-version tables)", s)
        elif prop == "C01" and scobs in ("repeatable.read_after_foreign_commit", "snapshot_across_epoch_bump.read_after_foreign_commit"):
            add("C01-D2", "non-repeatable and phantom reads: a transaction that began before a foreign commit sees that commit's changes on its next read (same root causes as C01-D1: start-epoch stamping and in-place tables)", "same sites as C01-D1", s)
        elif prop == "C01" and sc == "own_write":
            add("C01-D3", "a transaction does not see some of its own writes through some read paths", "crates/grafeo-core/src/execution/operators/*.rs (paths that read at the store epoch / ignore the transaction id)", s)
        elif prop == "C02" and sc in ("rollback", "session_dropped", "failed_commit"):
            add("C02-R1", "rollback (and, since the fixes 6c33d96 / 67f3036, a failed commit and a dropped session, which now roll back) only drops node/edge versions created by the transaction (discard_uncommitted_versions); SET/REMOVE property, label changes, deletions, DETACH DELETE's edge removals and MERGE (which writes as SYSTEM) are applied in place and survive", "crates/grafeo-engine/src/session.rs:651-671, crates/grafeo-core/src/graph/lpg/store.rs:1997-2017", s)
        elif prop == "C02" and sc == "session_dropped":
            add("C02-R2", "dropping a session with an open transaction", "crates/grafeo-engine/src/session.rs", s)
        elif prop == "C02" and sc == "failed_commit":
            add("C02-R3", "a commit that returns an error", "crates/grafeo-engine/src/session.rs:615-629", s)
        else:
            add(f"{prop}-D4", "a committed (or auto-committed) write is not (or wrongly) visible to a later reader through this read path", "see cell", s)
    elif s.startswith("multi:"):
        body, outcome = s[6:].rsplit("=", 1)
        w, ending, regime = body.split("|")
        if ending in ("Rollback", "Drop", "FailedCommit"):
            add("C02-R1", "", "", s)
        else:
            add("C02-D4", "a committed write is lost", "see signature", s)
    else:
        add(f"{prop}-W", "the engine refused a write or a transaction step in this scenario", "see signature", s)

import os
path = f"/verif/known_findings.d/{prop}.json"
out = json.load(open(path)) if os.path.exists(path) else {"findings": []}
byid = {f["id"]: f for f in out["findings"]}
for gid, g in GROUPS.items():
    if gid in byid:
        f = byid[gid]
        f["match"]["signatures"] = sorted(set(f["match"]["signatures"]) | set(g["sigs"]))
    else:
        out["findings"].append({
            "property": prop, "id": gid, "status": "open", "what": g["what"], "where": g["where"],
            "witness": f"findings/{gid}.json",
            "match": {"signatures": sorted(set(g["sigs"]))},
        })
json.dump(out, open(path, "w"), indent=1)
for gid, g in GROUPS.items():
    print(gid, len(set(g["sigs"])), g["what"][:90])
