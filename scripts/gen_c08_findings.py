#!/usr/bin/env python3
"""Writes /verif/known_findings.d/C08.json and the witness files findings/C08-F*.json.
One entry per root cause. Entries F1..F24 double as named deviation rules of the C08 reference
evaluator (c08_eval.rs RULE_IDS): the rule is on only while the finding is open."""
import json, os
ROOT = "/verif"
F = []
# repaired in /repo: recorded as `fixed` in /verif/known_findings.json by the integrator; the
# witness file is kept, the staging entry (and with it the deviation rule) is dropped
FIXED = {"C08-F8": "e05eb43", "C08-F25": "a6c6176"}
def f(id, what, where, witness, sigs=()):
    F.append({"property": "C08", "id": id, "status": "open", "what": what, "where": where,
              "witness": f"findings/{id}.json", "match": {"rule": id, "signatures": list(sigs)}})
    w = {"id": id, "property": "C08", "what": what, "where": where}
    w.update(witness)
    if id in FIXED:
        F.pop()
        w["status"] = "fixed"
        w["fixed_in"] = FIXED[id]
    json.dump(w, open(f"{ROOT}/findings/{id}.json", "w"), indent=1)

G1 = "db.create_node_with_props / create_edge_with_props on GrafeoDB::new_in_memory() (epoch 0, no transaction)"
f("C08-F1", "RETURN DISTINCT is ignored: ReturnOp.distinct is never read by the planner (WITH DISTINCT works)",
  "crates/grafeo-engine/src/query/planner.rs:646 (plan_return)",
  {"setup": G1, "graph": "(:P{uid:2}) with two self-loops", "query": "MATCH (n0)-[]->(n1) RETURN DISTINCT n0.uid AS c0", "languages": ["gql", "cypher"],
   "expected": "[[2]]", "observed": "[[2],[2]]"})
f("C08-F2", "a node pattern with several labels (n:P:Q) matches on the first label only",
  "crates/grafeo-engine/src/query/gql_translator.rs:659 (node.labels.first()), :798 (edge.target.labels[0]); cypher_translator.rs:152, :392",
  {"graph": "(:P{uid:2})", "query": "MATCH (n0:P:Q) RETURN n0.uid AS c0", "languages": ["gql", "cypher"], "expected": "[]", "observed": "[[2]]"})
f("C08-F3", "Cypher relationship type alternatives [:R|S] match the first type only",
  "crates/grafeo-engine/src/query/cypher_translator.rs:385 (rel.types.first())",
  {"graph": "(:P{uid:8})-[:S]->(:P{uid:11})", "query": "MATCH (n0)-[:R|S]->(n1) RETURN n0.uid AS c0", "languages": ["cypher"], "expected": "[[8]]", "observed": "[]"})
f("C08-F4", "an undirected pattern -[]- returns a self-loop twice (listed under outgoing and again under incoming)",
  "crates/grafeo-core/src/graph/lpg/store.rs:2256-2281 (edges_from: Direction::Both chains the forward and the backward adjacency; a self-loop is in both), used by expand.rs and variable_length_expand.rs",
  {"graph": "(:P{uid:11}) with one self-loop", "query": "MATCH (n0)-[]-(n1) RETURN n0.uid AS c0", "languages": ["gql", "cypher", "gremlin: g.V().both().values('uid')"],
   "expected": "[[11]]", "observed": "[[11],[11]]"})
f("C08-F5", "AND / OR yield unknown as soon as either operand is unknown (Kleene: false AND unknown = false, true OR unknown = true)",
  "crates/grafeo-core/src/execution/operators/filter.rs:626-635 (eval_binary_op And/Or use as_bool()? on both sides; eval_expr Binary uses ? on both operands)",
  {"graph": "(:Q{uid:30})", "query": "MATCH (n0) WHERE (n0.uid > 0 OR n0.zz > 0) RETURN n0.uid AS c0  /  MATCH (n0) WHERE NOT (n0.uid < 0 AND n0.zz > 0) RETURN n0.uid AS c0",
   "languages": ["gql", "cypher"], "expected": "[[30]]", "observed": "[]"})
f("C08-F6", "= / <> / IN treat a null value (stored null property or null literal) as an ordinary value: null <> 1 is true, null = null is true, instead of unknown",
  "crates/grafeo-core/src/execution/operators/filter.rs:1113 (values_equal), :636-637",
  {"graph": "(:T:P{uid:18,k:null})", "query": "MATCH (n0) WHERE n0.k <> 2.5 RETURN n0.uid AS c0   (also: WHERE n0.uid <> null; WHERE NOT (n0.k IN [1]))", "languages": ["gql", "cypher", "gremlin", "graphql"],
   "expected": "[]", "observed": "[[18]]"})
f("C08-F7", "sum/min/max of non-integer values return 0: the aggregate output column is typed Int64 and ValueVector::push_value replaces a value of another kind by the column default",
  "crates/grafeo-engine/src/query/planner.rs:1673-1680 (LogicalType::Int64 for Sum/Min/Max); crates/grafeo-core/src/execution/vector.rs:206-217",
  {"graph": "(:P{uid:9,f:2.5})", "query": "MATCH (n0) RETURN min(n0.f) AS c0  (same for max, sum; strings and booleans too)", "languages": ["gql", "cypher", "gremlin: g.V().values('f').min()"],
   "expected": "[[2.5]]", "observed": "[[0]]",
   "proposed_fix": "planner.rs plan_aggregate: use LogicalType::Any for Sum/Min/Max output columns"})
f("C08-F8", "a Filter directly above another Filter discards the lower filter: FilterOperator::next evaluates the predicate over all physical rows (total_row_count) and overwrites the child's selection vector",
  "crates/grafeo-core/src/execution/operators/filter.rs:1204-1213",
  {"graph": "(:P{uid:2})-[:S]->(:Q:P{uid:3}), (uid 2)-[:R]->(uid 2)", "query": "MATCH (n0)-[]->(n1:Q) WHERE n0.uid > 0 RETURN n0.uid AS c0",
   "languages": ["gql", "cypher", "gremlin: g.V().hasLabel('P').hasNot('b').values('uid') returns non-P vertices"],
   "expected": "[[2]]", "observed": "[[2],[2]]  (the label test on n1 is lost because the WHERE filter sits directly above it)",
   "proposed_fix": "filter.rs FilterOperator::next: build the new selection from chunk.selected_indices() instead of 0..total_row_count()"})
f("C08-F9", "two or more consecutive single-hop expands (factorized chain): when a level other than the first has no edge at all the level is not added and the flattened result has the wrong shape: rows for partial paths, 'Column not found', or 'Expected node ID in source column'",
  "crates/grafeo-core/src/execution/operators/factorized_expand.rs:413-417, 477-484 (level only added when non-empty)",
  {"graph": "(:T{uid:10}) no edges", "query": "MATCH (n0)-[]->(n1)-[]->(n2) RETURN n0.uid AS c0", "languages": ["gql", "cypher", "gremlin", "graphql"], "expected": "[]", "observed": "[[10]]",
   "note": "not emulated by the reference model: random cases in which a chain level is globally empty are not judged (counter not_judged.tainted_by_C08-F9); the directed cells below pin the behaviour"})
f("C08-F10", "GQL: SKIP and LIMIT are applied before ORDER BY and before aggregation",
  "crates/grafeo-engine/src/query/gql_translator.rs:245-265 (Skip/Limit built before Aggregate/Sort/Return)",
  {"graph": "6 nodes uid 12..17", "query": "MATCH (n0) RETURN n0.uid AS c0 ORDER BY n0.uid DESC LIMIT 5", "languages": ["gql"], "expected": "[17,16,15,14,13]", "observed": "[16,15,14,13,12]",
   "also": "MATCH (n0) RETURN count(n0) AS c0 LIMIT 0 returns one row; ... LIMIT 1 counts one binding"})
f("C08-F11", "Cypher count(expr) counts rows whose expr is null (planned as count(*)); GQL maps it to CountNonNull",
  "crates/grafeo-engine/src/query/cypher_translator.rs:738-770 (try_extract_aggregate keeps AggregateFunction::Count); aggregate.rs:903 (Count,false) updates unconditionally",
  {"graph": "(:Q{uid:1})", "query": "MATCH (n0) RETURN count(n0.f) AS c0", "languages": ["cypher"], "expected": "[[0]]", "observed": "[[1]]"})
f("C08-F12", "a variable-length pattern *0..n never yields the zero-length binding",
  "crates/grafeo-core/src/execution/operators/variable_length_expand.rs:214-246 (process_input_row seeds the frontier with depth-1 neighbours; depth 0 is never emitted)",
  {"graph": "(:P{uid:3}) no edges", "query": "MATCH (n0)-[*0..1]->(n1) RETURN n0.uid AS c0", "languages": ["gql", "cypher"], "expected": "[[3]]", "observed": "[]"})
f("C08-F13", "an unbounded variable-length pattern * is silently cut at min+10 hops",
  "crates/grafeo-engine/src/query/planner.rs:509 (expand.max_hops.unwrap_or(expand.min_hops + 10))",
  {"graph": "chain of 14 nodes uid 1..14 linked by R", "query": "MATCH (n0)-[:R*]->(n1) RETURN n0.uid AS c0, n1.uid AS c1", "languages": ["gql", "cypher"], "expected": "91 rows", "observed": "88 rows (walks of 11, 12, 13 hops missing)"})
f("C08-F14", "GQL: NOT binds tighter than comparison: NOT a < b is parsed as (NOT a) < b",
  "crates/grafeo-adapters/src/query/gql/parser.rs:1165-1176 (NOT handled in parse_unary_expression)",
  {"graph": "(:Q{uid:35})", "query": "MATCH (n0) WHERE NOT n0.uid < 0 RETURN n0.uid AS c0", "languages": ["gql"], "expected": "[[35]]", "observed": "[]"})
f("C08-F15", "a range predicate directly over a node scan is served by find_nodes_in_range, which compares same-kind values only: Int vs Float never matches (and booleans are ordered)",
  "crates/grafeo-engine/src/query/planner.rs:1194-1288 (try_plan_filter_with_range_index, used without any index); crates/grafeo-core/src/graph/lpg/store.rs:34-42 (compare_values_for_range)",
  {"graph": "(:P:T{uid:10,k:4.5})", "query": "MATCH (n0) WHERE n0.k > 1 RETURN n0.uid AS c0", "languages": ["gql", "cypher", "gremlin: g.V().has('k', gt(1))", "graphql"], "expected": "[[10]]", "observed": "[]",
   "matrix_cells": "the range-pair matrix of C08 (c08.rs between_matrix, 3072 cells on every run) attributes to this finding exactly the cells whose predicate is a BETWEEN pair served by the range path (patterns scan, label_scan, below_expand; lower and upper bound in either order and spelling) — 576 cells: with int or float bounds the values of the other numeric kind inside the range are lost, with mixed bounds nothing matches; counter between_matrix.explained_by.C08-F15"})
f("C08-F16", "an edge variable that passes through ORDER BY / SKIP / LIMIT (GQL) or a WITH (Cypher) is re-typed as a node column: e.prop then reads the property of the node whose id equals the edge id",
  "crates/grafeo-engine/src/query/planner.rs:1445-1448 (plan_sort: pass-through columns typed LogicalType::Node), :1394-1408 (plan_limit/plan_skip: schema Any; limit.rs rebuilds the chunk it cuts with push_value), :867 (plan_project: a passed-through variable is typed Node)",
  {"graph": "(:Q{uid:27}) with self-loop {uid:1000}", "query": "MATCH (n0)-[e0]->(n1) RETURN e0.uid AS c0 ORDER BY e0.uid", "languages": ["gql", "cypher: MATCH (n0)-[e0]->(n1) WITH n0, n1, e0 ORDER BY e0.uid RETURN e0.uid AS c0"],
   "expected": "[[1000]]", "observed": "[[27]]"})
f("C08-F17", "GQL front end rejects IS NULL / IS NOT NULL (Cypher answers the same text)",
  "crates/grafeo-adapters/src/query/gql/parser.rs:1061 (parse_comparison_expression has no IS branch)",
  {"query": "MATCH (n0) WHERE n0.k IS NULL RETURN n0.uid AS c0", "languages": ["gql"], "observed": "Query error: syntax error: Expected RETURN", "cross_language": "cypher answers"})
f("C08-F18", "GQL front end rejects IN [list] (Cypher answers the same text)",
  "crates/grafeo-adapters/src/query/gql/parser.rs:1061 (parse_comparison_expression has no IN branch)",
  {"query": "MATCH (n0) WHERE n0.f IN [-1] RETURN n0.uid AS c0", "languages": ["gql"], "observed": "Query error: syntax error: Expected RETURN", "cross_language": "cypher answers"})
f("C08-F19", "count(*) is a syntax error in GQL and Cypher (Gremlin count() answers)",
  "crates/grafeo-adapters/src/query/gql/parser.rs:1303-1320 (function arguments are expressions, '*' is not one); cypher/parser.rs:955-1075 (same; the count(*) special case in parse_aggregate_function l.1089 is not reached)",
  {"query": "MATCH (n0) RETURN count(*) AS c0", "languages": ["gql", "cypher"], "observed": "Query error: syntax error: Expected expression", "cross_language": "gremlin g.V().count() answers"})
f("C08-F20", "GQL front end rejects the type alternative [:R|S] (Cypher accepts it)",
  "crates/grafeo-adapters/src/query/gql/parser.rs:700-708 (types only as :A:B)",
  {"query": "MATCH (n0)-[:R|S]->(n1) RETURN n0.uid AS c0", "languages": ["gql"], "observed": "Query error: syntax error: Expected RBracket", "cross_language": "cypher answers"})
f("C08-F21", "Cypher RETURN ... ORDER BY fails: the Sort is planned above the Return projection and cannot resolve n.prop (nor the alias); GQL answers the same text",
  "crates/grafeo-engine/src/query/cypher_translator.rs:780 (translate_order_by on top of ReturnOp); planner.rs:1410-1470 (plan_sort)",
  {"query": "MATCH (n0) RETURN n0.uid AS c0 ORDER BY n0.uid", "languages": ["cypher"], "observed": "Internal error: Variable 'n0' not found for ORDER BY property projection", "cross_language": "gql answers"})
f("C08-F22", "GraphQL orderBy always fails: the Sort is planned above the Return of the selection set",
  "crates/grafeo-engine/src/query/graphql_translator.rs:403-409",
  {"query": "{ Q(orderBy: {uid: ASC}) { c0: uid } }", "languages": ["graphql"], "observed": "Internal error: Variable '_v0' not found for ORDER BY property projection", "cross_language": "gql answers MATCH (n:Q) RETURN n.uid ORDER BY n.uid"})
f("C08-F23", "Gremlin id() and label() fail: the planner's RETURN does not support Id/Labels expressions",
  "crates/grafeo-engine/src/query/gremlin_translator.rs:618-639; planner.rs:810 (Unsupported RETURN expression)",
  {"query": "g.V().id()  /  g.V().label()", "languages": ["gremlin"], "observed": "Internal error: Unsupported RETURN expression: Id(\"_v0\")", "cross_language": "gql answers MATCH (n) RETURN id(n)"})
f("C08-F24", "Gremlin values(k).fold() fails: the aggregate looks up the property alias as a variable",
  "crates/grafeo-engine/src/query/gremlin_translator.rs:721-735",
  {"query": "g.V().values('uid').fold()", "languages": ["gremlin"], "observed": "Internal error: Variable 'uid' not found in input", "cross_language": "gql answers MATCH (n) RETURN collect(n.uid)"})

f("C08-F25", "ValueVector::set_null allocates the validity bitmap at the first null and never grows it: every later null in a typed column reads back as the column default (0, 0.0, \"\", false)",
  "crates/grafeo-core/src/execution/vector.rs:119-128 (set_null: index >= validity.len() is ignored); push_* do not extend validity",
  {"graph": "(:T{uid:18}), (:T{uid:20,k:2})", "query": "MATCH (n0) RETURN n0.k AS c0, min(n0.f) AS c1", "languages": ["gql", "cypher"],
   "expected": "[[2, null], [null, null]]", "observed": "[[null, null], [2, 0]]",
   "proposed_fix": "vector.rs: in every push_* / push_value extend `validity` with `true` when it is Some; or in set_null resize validity to self.len before writing"})
f("C08-F26", "GQL: an unbounded variable-length pattern (*, *n..) gets max_hops = 1: `edge.max_hops.or(Some(1))` cannot tell 'no quantifier' from 'no upper bound'",
  "crates/grafeo-engine/src/query/gql_translator.rs:770",
  {"graph": "chain (12)-[:R]->(13)-[:R]->(14)", "query": "MATCH (n0)-[*]->(n1) RETURN n0.uid AS c0", "languages": ["gql"], "expected": "3 rows (12,12,13)", "observed": "2 rows (the 2-hop walk is missing); *2.. returns nothing"})
f("C08-F27", "the planner's zone-map pre-check empties a filter wrongly: (a) it looks the property name up in the *node* zone map whatever the variable is, so a predicate on an edge property whose key also exists on nodes is judged against node values; (b) the zone map's min/max ignore values of another kind than the first one stored, so for a mixed-kind column `k <> 'b'` is pruned when min = max = 'b' although other values exist",
  "crates/grafeo-engine/src/query/planner.rs:915-920, 1046-1050 (check_zone_map_for_predicate -> store.node_property_might_match); crates/grafeo-core/src/graph/lpg/property.rs:634-661 (update_zone_map_on_insert skips incomparable values), :1001-1018 (Ne pruning)",
  {"graph": "(a) (:P{uid:1})-[:R{uid:1000}]->(:P{uid:2});  (b) (:Q{uid:1,k:'b'}), (:P:T{uid:2,k:true})",
   "query": "(a) MATCH (n0)-[e0]->(n1) WHERE e0.uid > 500 RETURN n0.uid AS c0;  (b) MATCH (n0) WHERE n0.k <> 'b' RETURN n0.uid AS c0", "languages": ["gql", "cypher", "gremlin: g.V().has('k', neq('b')).values('uid')"],
   "expected": "(a) [[1]]  (b) [[2]]", "observed": "(a) []  (b) []",
   "note": "random predicates on edges use keys that do not exist on nodes (w, t); (a) is pinned by a directed cell"})

extra = json.load(open(f"{ROOT}/scripts/c08_extra_signatures.json")) if os.path.exists(f"{ROOT}/scripts/c08_extra_signatures.json") else {}
for e in F:
    e["match"]["signatures"] += extra.get(e["id"], [])
json.dump({"findings": F}, open(f"{ROOT}/known_findings.d/C08.json", "w"), indent=1)
print(len(F), "findings written")
