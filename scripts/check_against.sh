#!/usr/bin/env bash
# Run a check against a scratch worktree of the repository (seeded-change validation):
#   check_against.sh <worktree> <ID> [vh args...]
# Builds a copy of the harness whose path dependencies point into <worktree>, with its own
# target directory, and writes evidence/replays under $VH_OUT (default /tmp/vh-out-<ID>).
set -u
wt="$1"; id="$2"; shift 2
tag=$(echo "$wt" | tr '/' '_')
alt=/tmp/vh-alt$tag
rsync -a --delete --exclude target /verif/harness/ "$alt/"
# modules still under construction by others: use their committed versions
for m in ${UNDER:-}; do rm -f "$alt"/vh/src/${m}_*.rs; git -C /verif show HEAD:harness/vh/src/$m.rs > "$alt/vh/src/$m.rs"; done
sed -i "s#/repo/crates#$wt/crates#g" "$alt/vh/Cargo.toml" "$alt/vm/Cargo.toml"
sed -i "s#target-dir = .*#target-dir = \"/tmp/vh-alt-target$tag\"#" "$alt/.cargo/config.toml"
cd "$alt" && CARGO_NET_OFFLINE=true cargo build -q -p vh 2>/tmp/vh-alt-build$tag.log || { echo "INCONCLUSIVE property=$id reason=harness does not build against $wt"; tail -20 /tmp/vh-alt-build$tag.log; exit 2; }
export VH_OUT="${VH_OUT:-/tmp/vh-out-$id}"; mkdir -p "$VH_OUT"
export VH_REPO="$wt"
export VH_SCRATCH=$(mktemp -d /tmp/vh-scratch.XXXXXX); trap 'rm -rf "$VH_SCRATCH"' EXIT
/tmp/vh-alt-target$tag/debug/vh "$id" "$@"
