#!/usr/bin/env bash
# Confirm a seeded change delivered by a sub-agent: confirm_seed.sh <worktree> <seed-dir> <crate> [suite]
# (1) demo fails with the change, (2) demo passes without it, (3) optional: existing suite passes with it.
wt="$1"; sd="$2"; crate="$3"; suite="${4:-suite}"
cd "$wt" || exit 2
export CARGO_NET_OFFLINE=true
git diff > /tmp/confirm_$$.diff
[ -s /tmp/confirm_$$.diff ] || git apply "$sd/patch.diff"
mkdir -p "crates/$crate/tests"; cp "$sd/demo.rs" "crates/$crate/tests/zz_seed_demo.rs"
cargo test -p "$crate" ${FEATURES:+--features "$FEATURES"} --test zz_seed_demo --offline > "$sd/confirm_with.log" 2>&1; with_rc=$?
git stash -q -- crates ':!crates/'"$crate"'/tests/zz_seed_demo.rs' 2>/dev/null || git stash -q
# the demo file is untracked, so it survives the stash
cargo test -p "$crate" ${FEATURES:+--features "$FEATURES"} --test zz_seed_demo --offline > "$sd/confirm_without.log" 2>&1; without_rc=$?
git stash pop -q
rm -f "crates/$crate/tests/zz_seed_demo.rs"
suite_rc=-1
if [ "$suite" = "suite" ]; then
  cargo nextest run --workspace --no-fail-fast --test-threads 8 --offline > "$sd/confirm_suite.log" 2>&1; suite_rc=$?
fi
echo "CONFIRM $sd demo_with_change_rc=$with_rc demo_without_change_rc=$without_rc suite_rc=$suite_rc $(grep -E "Summary" "$sd/confirm_suite.log" 2>/dev/null | tail -1)"
rm -f /tmp/confirm_$$.diff
