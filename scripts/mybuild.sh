#!/usr/bin/env bash
# Integrator's build while module authors are editing their own files in place:
# copies the harness, replaces the modules under construction by their committed versions.
set -e
UNDER="${UNDER:-}"
rsync -a --delete --exclude target /verif/harness/ /verif/.mydev/
for m in $UNDER; do
  rm -f /verif/.mydev/vh/src/${m}_*.rs
  git -C /verif show HEAD:harness/vh/src/$m.rs > /verif/.mydev/vh/src/$m.rs
done
cd /verif/.mydev && CARGO_NET_OFFLINE=true cargo build 2>&1 | grep -E "^(error|warning: unused)" -A8 | head -${LINES_MAX:-40}
