#!/usr/bin/env python3
"""Generates /verif/MANIFEST.json from the table below (single source of truth)."""
import json, subprocess, os

CHECKS = {
 # id: (level category, technique, level text, level note, design ref)
 "C16": ("exploration", "runtime law monitors + round-trip monitors over an enumerated value pool and random values",
         "Algebraic laws of HashableValue/OrderableValue are evaluated on every ordered pair (and all triples in thorough) of a curated pool of ~110 boundary values plus random values; every serialisation the engine applies (Value::serialize, spill, WAL via close/reopen, snapshot) is round-tripped bit-for-bit through the real code; DISTINCT/GROUP BY/ORDER BY and the hash/btree indexes are run over the pool and judged by laws. Held = no law broken on the pairs/triples enumerated.",
         "Finite pool + random sampling: values outside the pool's classes are only sampled. JSON for bindings is not covered by the quick command.", "DESIGN.md §4 C16"),
}
CHECKS["C15"] = ("exploration", "runtime round-trip / random-access / bytes round-trip monitors over a directed codec x input-class matrix and random sequences",
  "Every codec (dictionary, delta signed/unsigned, bit-packing at every width 0..=64, delta+bit-packing, run-length signed/unsigned, bit vector algebra, codec selector, Elias-Fano, rank/select, wavelet tree, adjacency compaction/freeze, compressed property columns) is run on a directed matrix of input shapes x boundary lengths and on random sequences; the oracle is the input sequence itself (decode, get(i), iterator, from_bytes(to_bytes)). Held = every observed round trip was exact.",
  "Inputs respect documented preconditions (sorted where required). Sequence lengths <= 1025 in the matrix; values and lengths beyond the classes are sampled only. One build profile per run (dev by default; VH_PROFILE=release for the other).", "DESIGN.md §4 C15")
CHECKS["C14"] = ("exploration", "after-every-operation cross-accessor invariant walker against a reference model graph",
  "Random mutation histories on the real LpgStore (all mutating calls, mixed value types, index create/drop, statistics, zone-map rebuild, with/without backward adjacency, hub histories crossing the 64/256 adjacency thresholds); after every operation every accessor is compared with a plain reference model, zone-map pruning is probed for soundness, GrafeoDB::validate() must report exactly the dangling references. Held = all accessors agreed with the model at every prefix of every history run.",
  "Single-threaded, epoch 0 (no transactions): concurrency is C20's, MVCC visibility is C01's. Range finder and `<>` pruning are judged with same-kind comparison only (mixed Int/Float is C10's differential).", "DESIGN.md §4 C14")
CHECKS["C01"] = ("exploration", "session-history cell matrix + random histories of serial and of overlapping sessions, every read judged at run time by a snapshot reference model (specification) and, where findings are open, by the deviation model that encodes them",
  "Every combination of 17 write kinds x 26 read paths x 8 isolation scenarios (14 observation points) x 2 epoch regimes is executed on a fresh database through real sessions; each read is compared with the reference model's answer in the state the reader is entitled to see. Cells that fail today are listed under open findings with the exact observed outcome (hash of the wrong answer), so any change of behaviour in any cell - a new leak, or a known one moving - is a violation. Seeded random histories add compositions: (a) one session at a time, 8-37 writes of every kind on shared entities with all read paths after every step; (b) 2-4 real sessions interleaving begin / write / read / commit / rollback / drop / failed commit (10-50 steps, node+edge creation through GQL and the session API, SET/REMOVE, labels, DELETE / DETACH DELETE, SPARQL updates), 20 read paths after every step, each answer compared with the specification model and with the deviation model built from the open findings (start-epoch stamping + in-place tables, creation-only rollback, SPARQL reading only committed triples): equal to the specification = held, equal to the deviation model = known finding, anything else = violation with the history as witness. Held = every cell and every read matched.",
  "Statement-granularity interleavings on one thread; one small fixture graph; cells enumerate kinds of writes/reads, not all inputs of a kind. The deviation model is exact only for the recorded set of open findings (if that set changes the overlapping histories are skipped with an INFO line). Real threads are C20's.", "DESIGN.md §4 C01, §10.4")
CHECKS["C02"] = ("exploration", "before/after comparison around every transaction ending through all read paths + per-write visibility probes on random multi-write transactions; commit failure injected through a fail-point hook",
  "The cell matrix for the endings rollback / dropped session / failed commit (txmgr.commit fail point) / successful commit x every write kind x every read path x both regimes, plus seeded random transactions of 2-7 independent mutations whose every write is probed from a later observer: nothing may survive an abort, nothing may be lost by a commit. The same overlapping-session histories as C01, weighted towards endings (rollback, dropped session, failed commit ~ 50%), check that after every ending every session's every read path equals the all-or-nothing specification or exactly what the open finding C02-R1 predicts. Held = every cell, probe and read agreed with the all-or-nothing model or its recorded known outcome.",
  "Same fixture and granularity as C01; the failed commit is injected (query operators never register writes, so no natural conflict can occur).", "DESIGN.md §4 C02")
CHECKS["C05"] = ("exploration", "reopen histories on a real on-disk database compared with a persistent reference model; deviation rules replay the engine's log from hook-reported record/rotation events",
  "Random histories of every mutating API call and mutating session statements, interleaved with checkpoints, explicit and size-triggered rotations, syncs and 1-4 close/reopen cycles under all four durability modes; after every reopen the full dump (ids, labels, endpoints, bit-exact values) is compared with the model and fresh ids are checked for collisions. Known data-loss defects are expressed as named rules on a simulated log; an observation must equal the specification or exactly what the open rules predict.",
  "Local filesystem; histories <= 60 operations per cycle; the log simulation trusts the hook event stream (wal.record / wal.rotate / wal.ckpt.renamed) for the placement of records in files.", "DESIGN.md §4 C05")
CHECKS["C06"] = ("fault_enumeration", "crash-image enumeration over a recorded WAL byte timeline, each image reopened by the real engine and continued",
  "For each recorded history: after every step the WAL directory bytes, per-file fsync coverage (wal.sync events) and reference state are captured; crash images (all written / only synced / one file unsynced-lost / cuts at and inside the last records of every file / old metadata with complete or torn temp file / rotated file absent / single-bit flips) are materialised, opened, compared with 'some prefix no older than the last durability point' and with the exact prediction of the open findings, and a quarter are continued (write, close, reopen).",
  "Crash model = per-file prefix + rename atomicity; no reordering inside a file; length-prefix bit flips excluded (need process isolation); images sampled per instant, not all byte offsets.", "DESIGN.md §4 C06")
CHECKS["C07"] = ("exploration", "copy comparator over history-generated sources for four copy routes + hostile-bytes import in an isolated child process judged by an independent decoder",
  "Sources built by mutation histories (all value types, nested values, committed/rolled-back transactions, sparse ids) are copied by export/import, to_memory, save+open and open_in_memory; dumps and a query battery must agree, the source must be unchanged, export deterministic, fresh ids collision-free. Every truncation, bit flips, inflated lengths and random bytes of small valid snapshots are imported in a child under RLIMIT_AS: no panic, no abort, invalid bytes rejected, valid ones imported faithfully.",
  "Graphs <= ~60 entities; validity decided by a mirror of the published layout; memory bound is a 4 GiB address-space limit.", "DESIGN.md §4 C07")
CHECKS["C18"] = ("exploration", "runtime result validators for every search (membership, true distance under an f64 reference with a sound error bound, order, length where reachability is provable), kernel differential, quantiser bounds, batch vs single",
  "HNSW / quantized HNSW / engine vector index histories (insert, re-insert, remove, search, batch) over 12 dimensions, 4 metrics, k/ef edge values and extreme vectors; every returned list is validated clause by clause; every public distance kernel is compared with the f64 definition on a directed dims x magnitude matrix and random pairs; exact search must return the true k nearest; quantisers are held to their documented bounds.",
  "'returns k when k reachable' is only demanded where reachability follows from the public API (small insert-only indexes); approximate recall is not demanded.", "DESIGN.md §4 C18")
CHECKS["C03"] = ("exploration", "commit-decision checker over recorded begin/write/commit/abort/gc histories (manager, session and threaded level), gc-independence by triple execution",
  "Histories on the real TransactionManager are recorded at the API boundary with one logical clock; every commit decision is recomputed from the history (refused iff an overlapping transaction that committed first wrote one of its entities), every history is run with gc stripped / as generated / after every operation and must give identical decisions, commit epochs must be unique and increasing. All operation-level interleavings for <= 3 transactions x 2 entities are enumerated on every run, larger shapes sampled; the same shapes are replayed through real sessions and on 2-4 threads; the begin gap is driven deterministically through the txmgr.begin yield hook.",
  "Abstract write sets at manager level; at session level write sets are whatever the engine registers (currently nothing: finding C03-F2). Threaded runs sample schedules.", "DESIGN.md §4 C03")
CHECKS["C04"] = ("exploration", "per-commit serializability rule + dependency-graph (ww/wr/rw) acyclicity checker over recorded Serializable histories",
  "Same history machinery with record_read at IsolationLevel::Serializable: each commit is judged by the rule of the statement and, independently, the direct serialization graph of the committed transactions is built by the checker and must be acyclic (cycle printed as witness). Write-skew / lost-update / read-only-anomaly shapes in every interleaving and level mix, exhaustive small families, random beyond.",
  "Abstract reads/writes only: the engine's operators never record reads, so end-to-end serializability of queries is not observable.", "DESIGN.md §4 C04")
CHECKS["C20"] = ("exploration", "directed two-thread preemption at hooked yield points + chaos-delay multi-thread stress, judged by post-quiescence invariant walkers, conservation counters and a progress watchdog",
  "Every hooked window between two critical sections of an operation (node/label/property/edge updates, triple insert/remove, buffer allocation, transaction begin) is exercised deterministically: thread A is parked in the window, thread B runs a conflicting operation to completion, A resumes, then every derived structure is compared with the primary data. 4-16 thread stress mixes with seeded delays at the same sites check id uniqueness, lost acknowledged creations, index agreement, commit-epoch uniqueness/monotonicity, grant conservation, panics and deadlocks.",
  "One preemption per scenario at hooked sites only; other schedules are sampled; data races/UB are left to the TSan/Miri overlays (thorough).", "DESIGN.md §4 C20")
CHECKS["C13"] = ("exploration", "triple-set reference model checked after every store operation + reference SPARQL evaluator differential, mismatches shrunk to skeleton signatures",
  "Random histories of insert/remove/clear/transaction-buffer operations on the real RdfStore (both object-index settings) are compared after every operation with a set-of-triples model on all eight lookup shapes, len/stats/contains and the ring index; random SPARQL queries (BGP joins incl. repeated variables, FILTER, OPTIONAL, UNION, DISTINCT, ORDER/LIMIT/OFFSET, COUNT/GROUP BY, INSERT/DELETE DATA, DELETE WHERE, CLEAR) run through execute_sparql are compared with an independent reference evaluator; a directed transaction matrix covers SPARQL inside session transactions.",
  "Term universe of about a dozen terms and <= 16 triples per query case; only the generated SPARQL core; ORDER BY judged only where SPARQL defines the order.", "DESIGN.md §4 C13")
CHECKS["C19"] = ("exploration", "algorithm result validators: brute-force oracles, definitional re-checks and cross-algorithm agreement on generated multigraphs, failures shrunk to feature-class signatures",
  "Every bundled algorithm (shortest paths incl. A*, Bellman-Ford, Floyd-Warshall; traversals; components; topological sort; MST; max flow / min-cost flow; articulation points, bridges, k-core; centralities; clustering; community sanity) is run on 15 fixed witness graphs, on all digraphs with self-loops on <= 3 (quick) / <= 4 (thorough) nodes and on thousands of random multigraphs (self-loops, parallel/antiparallel edges, isolated nodes, disconnected parts, zero/equal/missing/negative weights), for every source/target, and each result is validated against its specification by brute force.",
  "Graphs <= 9 nodes / 24 edges; where an algorithm's documentation is silent any consistent reading is accepted (listed in the evidence assumptions).", "DESIGN.md §4 C19")
CHECKS["C08"] = ("exploration", "differential query runner in four languages against an independent reference evaluator (specification + one named deviation rule per open finding), cross-language comparison, shrinking to skeleton signatures",
  "Random graphs (0-40 nodes, plus strata crossing the 2048-row chunk size) and random queries from the shared core grammar are rendered to GQL, Cypher, Gremlin and GraphQL, executed by the real engine and compared with a reference evaluator over the model graph (all bindings, three-valued WHERE, projection, DISTINCT, ORDER BY, SKIP/LIMIT, grouping and aggregates). An observation must equal the specification or exactly what the open findings predict; anything else is shrunk and reported.",
  "Only the generated core grammar; order among ties / null placement / mixed-kind ordering are compared modulo that freedom; cases tainted by three non-emulable defects are counted, not judged, and pinned by directed cells.", "DESIGN.md §4 C08")
CHECKS["C11"] = ("exploration", "metamorphic relation checker (three-way predicate partition, count, distinct, ordered window, union all) over generated queries in every language that can express the relation",
  "For random base queries and predicates on random graphs (incl. results crossing 2048 rows) the relations rows(Q) = rows(Q and p) + rows(Q and not p) + rows(Q and p is null), count = number of rows, DISTINCT = set of rows, SKIP s LIMIT n = rows[s..s+n] of the ordered result, UNION ALL = concatenation are evaluated on the engine's own answers; a failing relation is attributed to an open finding only if the finding's deviation rule predicts every component answer.",
  "No reference evaluator decides the verdict; skip/limit values from a fixed boundary list; languages limited to what each front end accepts.", "DESIGN.md §4 C11")
CHECKS["C09"] = ("exploration", "differential execution of one bound plan under all 2^3 optimizer switch combinations x 3 statistics states, oracle = the un-rewritten plan; mismatches delta-debugged",
  "Random graphs and GQL/Cypher texts (multi-MATCH, OPTIONAL MATCH, WITH, UNWIND, variable-length, aggregates, mutating statements on fresh copies) are translated and bound once and executed under every optimizer configuration with the physical strategy pinned; rows (and the resulting graph digest for mutations) must equal the un-rewritten plan's. Evidence counts how many plans each rewrite rule actually changed; a run in which nothing was rewritten is inconclusive.",
  "Only filter push-down fires on plans the front ends produce (join reordering and projection push-down have nothing to rewrite there; hand-built join plans are run for information only).", "DESIGN.md §4 C09")
CHECKS["C10"] = ("exploration", "differential execution of one query under physical configurations (index subsets, zone-map / index / range paths via planner switches, factorized on/off, warm vs cold cache across data changes) against the everything-off configuration; directed cell matrix + random + histories",
  "A directed matrix (15 predicate shapes x 5 literal types x node/edge target x 4 paths) is enumerated on every run, plus random queries under 9 configuration variants covering every subset of indexed properties, factorized vs flat execution of multi-hop chains, and long-lived sessions re-running a text across index/label/property changes versus fresh sessions. The oracle is the same text on the same data with every optimisation removed (hooks planner.no_zone_map / no_index_path / no_range_path).",
  "The baseline is the engine's own generic scan+filter path (its defects are C08's); epoch 0 only, so visibility bypasses of the index paths are not observable here (C01 sees them).", "DESIGN.md §4 C10")
CHECKS["C17"] = ("exploration", "one logical pipeline executed under pull / push / mixed / parallel (1-16 workers, all morsel and chunk sizes) / spilling configurations and compared with a Vec-based reference; component monitors for morsels, merges, external sort, partitioned state, spill files",
  "Tables of boundary sizes (0, 1, chunk and morsel boundaries, up to 1e5 rows) with duplicate and null keys and every value type are pushed through chains of 1-4 operators (filter, project, limit/skip, distinct, sort, grouped aggregates) in every execution configuration the crate offers; outputs are compared as multisets (sortedness + multiset for sorts), parallel configurations are repeated to vary schedules, spill directories must be empty afterwards; a directed matrix of operator pairs runs on every invocation and failures are shrunk to skeleton signatures.",
  "Schedules are varied by repetition only (no scheduler hook); where row identity is undefined (limit over unordered streams) only counts and membership are demanded; parallel/fold.rs (rayon iterators) is not covered.", "DESIGN.md §4 C17")
CHECKS["C12"] = ("exploration", "generated, mutated and hostile query texts and parameter maps run in watchdogged, address-space-limited child processes; outcome classes (panic / abort / signal / stack overflow / rlimit / timeout) observed from outside",
  "Per language (GQL, Cypher, Gremlin, GraphQL, SPARQL) a fixed directed corpus (queries harvested from the repository's own tests, truncation at every byte, 30 hostile characters at every token position, arithmetic / index / function / regex / numeric-extreme matrices, every value of the value pool as a parameter, nesting ladders bisected to the smallest failing depth, clique and explosive families) plus seeded random inputs (grammar-generated, mutated, token soup) are executed against empty, mixed and dense fixtures in child processes under RLIMIT_AS = 4 GiB with a per-call bound; dead batches are bisected, timeouts re-run alone with a 60 s bound, and the outcome classifier is self-tested on every run.",
  "'All strings' is sampled; the time bound is a wall-clock proxy (CPU-aware, confirmed alone); memory bound is an address-space limit; dev profile only (overflow findings do not panic in release).", "DESIGN.md §4 C12")
NOT_YET = {}

def main():
    props = [json.loads(l) for l in open('/verif/properties.jsonl')]
    hooks_commits = []
    p = '/verif/hooks_commits.txt'
    if os.path.exists(p):
        hooks_commits = [l.split()[0] for l in open(p) if l.strip() and not l.startswith('#')]
    checks = []
    na = []
    for pr in props:
        i = pr['id']
        if i in CHECKS:
            cat, tech, text, note, ref = CHECKS[i]
            checks.append({
                "property_id": i,
                "quick_cmd": f"./check {i} --tier quick",
                "thorough_cmd": f"./check {i} --tier thorough",
                "evidence_file": f"evidence/{i}.json",
                "replay_cmd_template": f"./check {i} --replay {{path}}",
                "engine": "vh",
                "level_claimed": {"category": cat, "text": text, "design_ref": ref},
                "level_note": note,
                "technique": tech,
            })
        else:
            na.append({"property_id": i, "reason": NOT_YET.get(i, "monitor not built yet in this session (planned in DESIGN.md); not claimed until its check is silent on the unchanged tree")})
    m = {
        "version": 1,
        "setup_cmd": "./setup.sh",
        "hooks": {
            "guard": "grafeo_verif",
            "enable": "RUSTFLAGS='--cfg grafeo_verif' via /verif/harness/.cargo/config.toml (the harness builds /repo's crates as path dependencies)",
            "baseline_off_cmd": "cd /repo && cargo nextest run --workspace --no-fail-fast --tool-config-file pb:/w/lib/nextest.toml --profile pb --test-threads 8 --offline || cargo test --workspace --no-fail-fast --offline",
            "source_commits": hooks_commits,
            "add_only": True,
        },
        "engines": [{"name": "vh", "path": "harness/vh", "serves_properties": sorted(CHECKS), "kind_free_text": "Rust harness linking /repo's crates (path deps, --cfg grafeo_verif): generated workloads + reference-model / law / differential monitors, evidence writer, known-findings matcher"}],
        "checks": checks,
        "not_applicable": na,
        "notes": "Family: runtime monitoring and sanitizers. Exit 0 = held on everything observed, 1 = VIOLATION, 2 = INCONCLUSIVE. known_findings.json lists genuine defects (open) and repairs (fixed).",
    }
    json.dump(m, open('/verif/MANIFEST.json', 'w'), indent=1)
    print("checks:", len(checks), "not_applicable:", len(na))

main()
