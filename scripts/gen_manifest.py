#!/usr/bin/env python3
"""Generates /verif/MANIFEST.json from the table below (single source of truth)."""
import json, subprocess, os

CHECKS = {
 # id: (level category, technique, level text, level note, design ref)
 "C16": ("exploration", "runtime law monitors + round-trip monitors over an enumerated value pool and random values",
         "Algebraic laws of HashableValue/OrderableValue are evaluated on every ordered pair (and all triples in thorough) of a curated pool of ~110 boundary values plus random values; every serialisation the engine applies (Value::serialize, spill, WAL via close/reopen, snapshot) is round-tripped bit-for-bit through the real code; DISTINCT/GROUP BY/ORDER BY and the hash/btree indexes are run over the pool and judged by laws. Held = no law broken on the pairs/triples enumerated.",
         "Finite pool + random sampling: values outside the pool's classes are only sampled. JSON for bindings is not covered by the quick command.", "DESIGN.md §4 C16"),
}
CHECKS["C15"] = ("exploration", "runtime round-trip / random-access / bytes round-trip monitors over a directed codec x input-class matrix and random sequences",
  "Every codec (dictionary, delta signed/unsigned, bit-packing at every width 0..=64, delta+bit-packing, run-length signed/unsigned, bit vector algebra, codec selector, Elias-Fano, rank/select, wavelet tree, adjacency compaction/freeze, compressed property columns) is run on a directed matrix of input shapes x boundary lengths and on random sequences; the oracle is the input sequence itself (decode, get(i), iterator, from_bytes(to_bytes)). Held = every observed round trip was exact.",
  "Inputs respect documented preconditions (sorted where required). Sequence lengths <= 1025 in the matrix; values and lengths beyond the classes are sampled only. One build profile per run (dev by default; VH_PROFILE=release for the other).", "DESIGN.md §4 C15")
CHECKS["C14"] = ("exploration", "after-every-operation cross-accessor invariant walker against a reference model graph",
  "Random mutation histories on the real LpgStore (all mutating calls, mixed value types, index create/drop, statistics, zone-map rebuild, with/without backward adjacency, hub histories crossing the 64/256 adjacency thresholds); after every operation every accessor is compared with a plain reference model, zone-map pruning is probed for soundness, GrafeoDB::validate() must report exactly the dangling references. Held = all accessors agreed with the model at every prefix of every history run.",
  "Single-threaded, epoch 0 (no transactions): concurrency is C20's, MVCC visibility is C01's. Range finder and `<>` pruning are judged with same-kind comparison only (mixed Int/Float is C10's differential).", "DESIGN.md §4 C14")
NOT_YET = {}

def main():
    props = [json.loads(l) for l in open('/verif/properties.jsonl')]
    hooks_commits = []
    p = '/verif/hooks_commits.txt'
    if os.path.exists(p):
        hooks_commits = [l.split()[0] for l in open(p) if l.strip() and not l.startswith('#')]
    checks = []
    na = []
    for pr in props:
        i = pr['id']
        if i in CHECKS:
            cat, tech, text, note, ref = CHECKS[i]
            checks.append({
                "property_id": i,
                "quick_cmd": f"./check {i} --tier quick",
                "thorough_cmd": f"./check {i} --tier thorough",
                "evidence_file": f"evidence/{i}.json",
                "replay_cmd_template": f"./check {i} --replay {{path}}",
                "engine": "vh",
                "level_claimed": {"category": cat, "text": text, "design_ref": ref},
                "level_note": note,
                "technique": tech,
            })
        else:
            na.append({"property_id": i, "reason": NOT_YET.get(i, "monitor not built yet in this session (planned in DESIGN.md); not claimed until its check is silent on the unchanged tree")})
    m = {
        "version": 1,
        "setup_cmd": "./setup.sh",
        "hooks": {
            "guard": "grafeo_verif",
            "enable": "RUSTFLAGS='--cfg grafeo_verif' via /verif/harness/.cargo/config.toml (the harness builds /repo's crates as path dependencies)",
            "baseline_off_cmd": "cd /repo && cargo nextest run --workspace --no-fail-fast --tool-config-file pb:/w/lib/nextest.toml --profile pb --test-threads 8 --offline || cargo test --workspace --no-fail-fast --offline",
            "source_commits": hooks_commits,
            "add_only": True,
        },
        "engines": [{"name": "vh", "path": "harness/vh", "serves_properties": sorted(CHECKS), "kind_free_text": "Rust harness linking /repo's crates (path deps, --cfg grafeo_verif): generated workloads + reference-model / law / differential monitors, evidence writer, known-findings matcher"}],
        "checks": checks,
        "not_applicable": na,
        "notes": "Family: runtime monitoring and sanitizers. Exit 0 = held on everything observed, 1 = VIOLATION, 2 = INCONCLUSIVE. known_findings.json lists genuine defects (open) and repairs (fixed).",
    }
    json.dump(m, open('/verif/MANIFEST.json', 'w'), indent=1)
    print("checks:", len(checks), "not_applicable:", len(na))

main()
