#!/usr/bin/env bash
# Sanitizer overlays (thorough tier). usage: overlay.sh <miri|tsan|asan> <property-id> [workloads...]
# Builds the small driver crate harness/vm against /repo's working tree with the chosen
# sanitizer and runs its workloads; prints VIOLATION lines for every sanitizer report and writes
# /verif/evidence/.overlay_<id>_<tool>.json (merged into the evidence file by the main check).
set -u
tool="$1"; id="$2"; shift 2
workloads=("$@")
[ ${#workloads[@]} -eq 0 ] && workloads=(arena arena_threads property rdf_threads buffer_threads store_threads)
cd /verif/harness || exit 2
export CARGO_NET_OFFLINE=true
out=/verif/evidence/.overlay_${id}_${tool}.json
logdir=$(mktemp -d /tmp/vh-overlay.XXXXXX)
trap 'rm -rf "$logdir"' EXIT
reports=0; runs=0; inconclusive=0; details=""
seeds="${OVERLAY_SEEDS:-1 2 3}"
case "$tool" in
  miri)
    export MIRIFLAGS="-Zmiri-disable-isolation -Zmiri-ignore-leaks"
    for w in "${workloads[@]}"; do for s in $seeds; do
      runs=$((runs+1))
      if RUSTFLAGS="--cfg grafeo_verif" CARGO_TARGET_DIR=/verif/target-miri timeout 1800 cargo +nightly miri run -q -p vm -- "$w" "$s" >"$logdir/$w.$s.log" 2>&1; then :; else
        rc=$?
        if grep -q "Undefined Behavior\|data race\|error: unsupported operation" "$logdir/$w.$s.log"; then
          if grep -q "unsupported operation" "$logdir/$w.$s.log"; then inconclusive=$((inconclusive+1)); else
            reports=$((reports+1)); sig=$(grep -m1 -o "Undefined Behavior: [^\`]*\|Data race detected[^\`]*" "$logdir/$w.$s.log" | head -c 120 | tr ' ' '_')
            mkdir -p /verif/replays/$id; cp "$logdir/$w.$s.log" /verif/replays/$id/miri_$w.$s.log
            echo "VIOLATION property=$id replay=/verif/replays/$id/miri_$w.$s.log signature=miri:$w:$sig"
          fi
        elif [ $rc -eq 124 ]; then inconclusive=$((inconclusive+1));
        elif grep -q "panicked at" "$logdir/$w.$s.log"; then
          reports=$((reports+1)); mkdir -p /verif/replays/$id; cp "$logdir/$w.$s.log" /verif/replays/$id/miri_$w.$s.log
          echo "VIOLATION property=$id replay=/verif/replays/$id/miri_$w.$s.log signature=miri:$w:workload_assertion_failed"
        else inconclusive=$((inconclusive+1)); fi
      fi
    done; done ;;
  tsan)
    export RUSTFLAGS="--cfg grafeo_verif -Zsanitizer=thread"
    if ! CARGO_TARGET_DIR=/verif/target-tsan cargo +nightly build -q -Zbuild-std --target x86_64-unknown-linux-gnu -p vm >"$logdir/build.log" 2>&1; then
      echo "INCONCLUSIVE property=$id reason=tsan build failed"; tail -5 "$logdir/build.log"; inconclusive=1
    else
      bin=/verif/target-tsan/x86_64-unknown-linux-gnu/debug/vm
      for w in "${workloads[@]}"; do for s in $seeds 4 5 6 7 8; do
        runs=$((runs+1))
        TSAN_OPTIONS="halt_on_error=0 exitcode=66 log_path=$logdir/tsan.$w.$s" timeout 600 "$bin" "$w" "$s" >"$logdir/$w.$s.out" 2>&1
        for f in "$logdir"/tsan.$w.$s.*; do [ -f "$f" ] || continue
          n=$(grep -c "WARNING: ThreadSanitizer" "$f"); [ "$n" -gt 0 ] || continue
          reports=$((reports+n)); mkdir -p /verif/replays/$id; cp "$f" /verif/replays/$id/tsan_$w.$s.log
          # dedupe by first in-repo frame
          sig=$(grep -m1 -o "/repo/crates/[^ :]*" "$f" | sed 's#/repo/##')
          echo "VIOLATION property=$id replay=/verif/replays/$id/tsan_$w.$s.log signature=tsan:$w:$sig"
        done
      done; done
    fi ;;
  asan)
    # the whole monitor binary under AddressSanitizer, quick workload of the property itself
    export RUSTFLAGS="--cfg grafeo_verif -Zsanitizer=address -Cforce-frame-pointers=yes"
    if ! CARGO_TARGET_DIR=/verif/target-asan cargo +nightly build -q --target x86_64-unknown-linux-gnu -p vh >"$logdir/build.log" 2>&1; then
      echo "INCONCLUSIVE property=$id reason=asan build failed"; tail -5 "$logdir/build.log"; inconclusive=1
    else
      bin=/verif/target-asan/x86_64-unknown-linux-gnu/debug/vh
      runs=1
      VH_OUT="$logdir/out" ASAN_OPTIONS="detect_leaks=0:halt_on_error=0:log_path=$logdir/asan" timeout 3000 "$bin" "$id" --tier quick >"$logdir/run.out" 2>&1
      rc=$?
      for f in "$logdir"/asan.*; do [ -f "$f" ] || continue
        n=$(grep -c "ERROR: AddressSanitizer" "$f"); [ "$n" -gt 0 ] || continue
        reports=$((reports+n)); mkdir -p /verif/replays/$id; cp "$f" /verif/replays/$id/asan_$(basename $f).log
        sig=$(grep -m1 -o "AddressSanitizer: [a-z-]*" "$f" | tr ' ' '_'); site=$(grep -m1 -o "/repo/crates/[^ :]*" "$f" | sed 's#/repo/##')
        echo "VIOLATION property=$id replay=/verif/replays/$id/asan_$(basename $f).log signature=asan:$sig:$site"
      done
      if [ $rc -ne 0 ] && [ $rc -ne 1 ] && [ "$reports" -eq 0 ]; then inconclusive=1; fi
      grep -E "^SUMMARY" "$logdir/run.out" | head -1
    fi ;;
  *) echo "unknown tool $tool"; exit 2 ;;
esac
printf '{"tool":"%s","workloads":"%s","runs":%d,"reports":%d,"inconclusive":%d}\n' "$tool" "${workloads[*]}" "$runs" "$reports" "$inconclusive" > "$out"
echo "OVERLAY property=$id tool=$tool runs=$runs reports=$reports inconclusive=$inconclusive"
[ "$reports" -eq 0 ] || exit 1
exit 0
