#!/usr/bin/env python3
"""Writes /verif/known_findings.d/C11.json and witness files findings/C11-F*.json.
C11-Fn documents the same root cause as C08-Fn (the C08 reference model's deviation rule of
that number attributes a failing relation to it); C11-F28.. are C11's own."""
import json, os
ROOT = "/verif"
c08 = {e["id"]: e for e in json.load(open(f"{ROOT}/known_findings.d/C08.json"))["findings"] + [x for x in json.load(open(f"{ROOT}/known_findings.json"))["findings"] if x["id"].startswith("C08-")]}
F = []
# repaired in /repo: recorded as `fixed` in /verif/known_findings.json by the integrator; the
# witness file is kept, the staging entry (and with it the deviation rule) is dropped
FIXED = {"C11-F8": "e05eb43"}
def f(id, what, where, witness, sigs=()):
    F.append({"property": "C11", "id": id, "status": "open", "what": what, "where": where,
              "witness": f"findings/{id}.json", "match": {"rule": id, "signatures": list(sigs)}})
    w = {"id": id, "property": "C11", "what": what, "where": where}
    w.update(witness)
    if id in FIXED:
        F.pop()
        w["status"] = "fixed"
        w["fixed_in"] = FIXED[id]
    json.dump(w, open(f"{ROOT}/findings/{id}.json", "w"), indent=1)

def same(n, relation, witness):
    e = c08[f"C08-F{n}"]
    f(f"C11-F{n}", f"{relation}: {e['what']}", e["where"], dict(witness, same_root_cause_as=f"C08-F{n}"))

same(1, "DISTINCT(Q) != set(rows(Q))", {"graph": "(:P{uid:2}) with two self-loops", "queries": ["MATCH (n0)-[]->(n1) RETURN n0.uid AS c0", "MATCH (n0)-[]->(n1) RETURN DISTINCT n0.uid AS c0"], "languages": ["gql", "cypher"], "observed": "both return [[2],[2]]", "note": "WITH DISTINCT ... RETURN obeys the relation"})
same(8, "rows(Q WHERE p) + rows(Q WHERE NOT p) + rows(Q WHERE (p) IS NULL) contains rows that are not in rows(Q)", {"graph": "(:P{uid:2})-[:S]->(:Q:P{uid:3}), (uid 2)-[:R]->(uid 2)", "queries": ["MATCH (n0)-[]->(n1:Q) RETURN n0.uid, n1.uid", "MATCH (n0)-[]->(n1:Q) WHERE n0.uid > 0 RETURN n0.uid, n1.uid", "... WHERE NOT (n0.uid > 0) ...", "... WHERE (n0.uid > 0) IS NULL ..."], "languages": ["cypher", "gql (two parts)", "gremlin"], "observed": "|Q| = 1, |p| = 2: the label test on n1 is lost as soon as a WHERE filter sits above it"})
same(10, "GQL: ORDER BY uid SKIP s LIMIT n != rows[s..s+n] of the ordered result", {"graph": "6 nodes uid 12..17", "queries": ["MATCH (n0) RETURN n0.uid AS c0 ORDER BY n0.uid DESC", "MATCH (n0) RETURN n0.uid AS c0 ORDER BY n0.uid DESC LIMIT 5"], "languages": ["gql"], "observed": "[17..12] vs [16,15,14,13,12]"})
same(15, "partition loses rows: Q WHERE n.k > c is served by the strict-typed range scan, the NOT and IS NULL parts by the generic filter", {"graph": "(:P:T{uid:10,k:4.5})", "queries": ["MATCH (n0) RETURN n0.uid", "MATCH (n0) WHERE n0.k > 1 RETURN n0.uid", "MATCH (n0) WHERE NOT (n0.k > 1) RETURN n0.uid", "MATCH (n0) WHERE (n0.k > 1) IS NULL RETURN n0.uid"], "languages": ["cypher", "gremlin"], "observed": "sizes 1, 0, 0, 0"})
same(16, "window / order_perm / weak_window over an edge column: the rows of the ordered or cut result carry node properties instead of edge properties, so they are not rows of the full result", {"graph": "(:P{uid:2}) with self-loop {uid:1000}", "queries": ["MATCH (n0)-[e0]->(n1) RETURN e0.uid AS c0", "MATCH (n0)-[e0]->(n1) RETURN e0.uid AS c0 ORDER BY e0.uid"], "languages": ["gql", "cypher (WITH form)"], "observed": "[[1000]] vs [[2]]"})
same(17, "partition with p containing IS [NOT] NULL cannot be asked in GQL", {"query": "MATCH (n0) WHERE n0.k IS NULL RETURN n0.uid AS c0", "languages": ["gql"], "observed": "Query error: syntax error: Expected RETURN"})
same(18, "relations with p containing IN cannot be asked in GQL", {"query": "MATCH (n0) WHERE n0.f IN [-1] RETURN n0.uid AS c0", "languages": ["gql"], "observed": "Query error: syntax error: Expected RETURN"})
same(19, "count(*) == |rows(Q)| cannot be asked in GQL and Cypher", {"query": "MATCH (n0) RETURN count(*) AS c0", "languages": ["gql", "cypher"], "observed": "Query error: syntax error: Expected expression", "note": "count(n0) obeys the relation; Gremlin count() too"})
same(21, "Cypher: RETURN ... ORDER BY (and therefore the window relation in its standard spelling) fails", {"query": "MATCH (n0) RETURN n0.uid AS c0 ORDER BY n0.uid SKIP 1 LIMIT 2", "languages": ["cypher"], "observed": "Internal error: Variable 'n0' not found for ORDER BY property projection", "note": "WITH n0 ORDER BY n0.uid SKIP 1 LIMIT 2 RETURN n0.uid obeys the relation"})
same(22, "GraphQL: orderBy (and therefore the window relation) fails", {"query": "{ Q(orderBy: {uid: ASC}, skip: 1, first: 2) { c0: uid } }", "languages": ["graphql"], "observed": "Internal error: Variable '_v0' not found for ORDER BY property projection"})
same(9, "count / partition over a two-hop pattern: the component queries fail or return partial paths", {"graph": "(:P{uid:1})-[:R]->(:P{uid:2})", "queries": ["MATCH (n0)-[]->(n1)-[]->(n2) RETURN n0.uid AS c0, n1.uid AS c1, n2.uid AS c2", "MATCH (n0)-[]->(n1)-[]->(n2) RETURN count(n2) AS c0"], "languages": ["gql", "cypher"], "observed": "Invalid value: Column not found", "note": "random instances with a globally empty chain level are not judged (counter undecided.tainted_by_C08-F9); pinned by directed cells"})
same(27, "partition loses every row: Q WHERE e.uid > 500 is pruned by the node zone map of `uid`, NOT (..) and (..) IS NULL are evaluated and are false", {"graph": "(:P{uid:1})-[:R{uid:1000}]->(:P{uid:2})", "queries": ["MATCH (n0)-[]->(n1) RETURN n0.uid", "... WHERE e0.uid > 500 ...", "... WHERE NOT (e0.uid > 500) ...", "... WHERE (e0.uid > 500) IS NULL ..."], "languages": ["cypher"], "observed": "sizes 1, 0, 0, 0"})
f("C11-F28", "GQL: the parser does not require end of input: everything after the first complete query, including UNION ALL <query>, is silently ignored, so Q1 UNION ALL Q2 returns rows(Q1)",
  "crates/grafeo-adapters/src/query/gql/parser.rs:131-157 (Parser::parse returns after parse_query without checking for Eof); crates/grafeo-engine/src/query/gql_translator.rs:22",
  {"graph": "(:Q{uid:12})", "queries": ["MATCH (n0) RETURN n0.uid AS c0", "MATCH (n0) RETURN n0.uid AS c0 UNION ALL MATCH (n0) RETURN n0.uid AS c0"], "languages": ["gql"], "expected": "2 rows", "observed": "1 row; `MATCH (n) RETURN n.uid garbage tokens here` is accepted as well",
   "proposed_fix": "gql/parser.rs Parser::parse: after the statement, `if self.current.kind != TokenKind::Eof { return Err(self.error(\"Expected end of query\")) }` (as the Cypher parser does)"},
  ["union_all|gql|second_branch_ignored|hops0,ret:prop"])

extra = json.load(open(f"{ROOT}/scripts/c11_extra_signatures.json")) if os.path.exists(f"{ROOT}/scripts/c11_extra_signatures.json") else {}
for e in F:
    e["match"]["signatures"] += extra.get(e["id"], [])
for id, sigs in extra.items():
    if not any(e["id"] == id for e in F):
        raise SystemExit(f"extra signatures for unknown finding {id}")
json.dump({"findings": F}, open(f"{ROOT}/known_findings.d/C11.json", "w"), indent=1)
print(len(F), "findings written")
