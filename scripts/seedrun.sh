#!/usr/bin/env bash
# seedrun.sh <seed-out-dir> <seed-name> <property-id> <demo-crate> [extra check ids...]
# Scratch worktree: $WT (default /tmp/cw), created with  git -C /repo worktree add --detach /tmp/cw HEAD  and removed afterwards.
# Integrator-side confirmation of a seeded change, in the scratch worktree /tmp/cw:
#   detection (quick tier of the property's check, plus extra ids), demo with the change (must fail),
#   unedited suite with the change (must pass), demo without the change (must pass).
# Results go to /tmp/seedres/<seed-name>/.
src="$1"; name="$2"; pid="$3"; crate="$4"; shift 4
out=/tmp/seedres/$name; mkdir -p "$out"
export CARGO_NET_OFFLINE=true
wt="${WT:-/tmp/cw}"
cd "$wt" || exit 2
git checkout -q -- . ; rm -f crates/*/tests/zz_seed_demo.rs
git apply "$src/patch.diff" || { echo "CONFIRM $name patch does not apply"; exit 2; }
for id in "$pid" "$@"; do
  [ "${NODETECT:-0}" = "1" ] && break
  VH_OUT=$out/vh-$id /verif/scripts/check_against.sh "$wt" "$id" --tier quick > "$out/detect_$id.log" 2>&1
  echo "DETECT $name $id rc=$? $(grep -c '^VIOLATION' "$out/detect_$id.log") violations: $(grep '^VIOLATION' "$out/detect_$id.log" | sed 's/.*signature=//' | head -3 | tr '\n' ' ')"
done
if [ "${NOCONFIRM:-0}" = "1" ]; then git checkout -q -- .; exit 0; fi
mkdir -p "crates/$crate/tests"; cp "$src/demo.rs" "crates/$crate/tests/zz_seed_demo.rs"
cargo test -p "$crate" ${FEATURES:+--features "$FEATURES"} --test zz_seed_demo --offline > "$out/demo_with.log" 2>&1; with_rc=$?
rm -f "crates/$crate/tests/zz_seed_demo.rs"
suite_rc=-1
if [ "${NOSUITE:-0}" != "1" ]; then
  cargo nextest run --workspace --no-fail-fast --test-threads ${TT:-8} --offline > "$out/suite.log" 2>&1; suite_rc=$?
fi
git checkout -q -- .
cp "$src/demo.rs" "crates/$crate/tests/zz_seed_demo.rs"
cargo test -p "$crate" ${FEATURES:+--features "$FEATURES"} --test zz_seed_demo --offline > "$out/demo_without.log" 2>&1; without_rc=$?
rm -f "crates/$crate/tests/zz_seed_demo.rs"; rmdir "crates/$crate/tests" 2>/dev/null
echo "CONFIRM $name demo_with_change_rc=$with_rc demo_without_change_rc=$without_rc suite_rc=$suite_rc $(grep -E 'Summary' "$out/suite.log" 2>/dev/null | tail -1)"
