#!/usr/bin/env bash
# Offline setup: build the harness (dev profile) against /repo's working tree.
set -e
cd "$(dirname "$0")/harness"
export CARGO_NET_OFFLINE=true
cargo build 2>&1 | tail -n 3
